"""Input decoding shared by the atheris target and the C05 check (first byte = selector for some targets)."""

import struct

from google_crc32c import value as crc32c


def fix_crc(data: bytes) -> bytes:
    if len(data) < 12:
        return data
    body = data[0:8] + b"\0\0\0\0" + data[12:]
    return data[0:8] + struct.pack("<L", crc32c(body)) + data[12:]


def split(target: str, data: bytes):
    aux = {}
    if target == "reconfig_param":
        aux["ptype"] = (13, 16, 17)[data[0] % 3] if data else 13
        data = data[1:]
    elif target == "hdrext":
        aux["profile"] = (0xBEDE, 0x1000, 0x1001, 0)[data[0] % 4] if data else 0xBEDE
        data = data[1:]
    elif target == "sctp_packet_crc":
        data = fix_crc(data)
    return data, aux
