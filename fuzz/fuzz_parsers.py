#!/venv/bin/python
"""Coverage-guided fuzzing (atheris / libFuzzer) of aiortc's wire parsers with the
C05 oracle inside the target: the parser returns or raises ValueError, nothing
else; libFuzzer's own -timeout turns a hang into a saved input.

usage: fuzz_parsers.py <target> [libFuzzer args...]
The first byte of the input is consumed by some targets as a selector (extension
map / RE-CONFIG parameter type / header-extension profile); see split()."""

import os
import struct
import sys

HERE = os.path.dirname(os.path.abspath(__file__))
sys.path[:0] = [os.path.dirname(HERE), os.path.join(os.path.dirname(HERE), ".deps")]

import atheris  # noqa: E402

with atheris.instrument_imports(include=["aiortc"]):
    import aiortc.rtcsctptransport  # noqa: F401
    import aiortc.rtp  # noqa: F401
    import aiortc.codecs.h264  # noqa: F401
    import aiortc.codecs.vpx  # noqa: F401

from checks.c05_robust import call_parser  # noqa: E402

TARGET = sys.argv[1]


from fuzz.fuzz_parsers_split import split  # noqa: E402


def one_input(data: bytes) -> None:
    payload, aux = split(TARGET, data)
    try:
        call_parser(TARGET, payload, aux)
    except ValueError:
        pass


if __name__ == "__main__":
    atheris.Setup([sys.argv[0]] + sys.argv[2:], one_input)
    atheris.Fuzz()
