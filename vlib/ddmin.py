"""Bounded, generic delta-debugging over JSON-like cases (lists / dicts / ints /
strings).  Used instead of the Hypothesis shrinker so that minimisation has a
hard evaluation budget (DESIGN.md 1.3/1.4)."""

from __future__ import annotations

import copy
from typing import Any, Callable


class _Budget:
    def __init__(self, n: int) -> None:
        self.left = n


def minimise(case: Any, still_fails: Callable[[Any], bool], max_evals: int = 300) -> Any:
    budget = _Budget(max_evals)

    def test(c: Any) -> bool:
        if budget.left <= 0:
            return False
        budget.left -= 1
        try:
            return bool(still_fails(c))
        except Exception:
            return False

    best = copy.deepcopy(case)
    improved = True
    while improved and budget.left > 0:
        improved = False
        for path in list(_paths(best)):
            if budget.left <= 0:
                break
            try:
                node = _get(best, path)
            except (KeyError, IndexError, TypeError):
                continue
            for cand in _candidates(node):
                trial = _set(best, path, cand)
                if test(trial):
                    best = trial
                    improved = True
                    break
    return best


def _paths(x: Any, prefix: tuple = ()):  # type: ignore[no-untyped-def]
    # parents before children, so big removals are tried first
    yield prefix
    if isinstance(x, dict):
        for k in list(x.keys()):
            yield from _paths(x[k], prefix + (k,))
    elif isinstance(x, list):
        for i in range(len(x)):
            yield from _paths(x[i], prefix + (i,))


def _get(x: Any, path: tuple) -> Any:
    for p in path:
        x = x[p]
    return x


def _set(x: Any, path: tuple, value: Any) -> Any:
    if not path:
        return copy.deepcopy(value)
    x = copy.deepcopy(x)
    node = x
    for p in path[:-1]:
        node = node[p]
    node[path[-1]] = copy.deepcopy(value)
    return x


def _candidates(node: Any):  # type: ignore[no-untyped-def]
    if isinstance(node, list):
        n = len(node)
        if n == 0:
            return
        yield []
        size = n // 2
        while size >= 1:
            for start in range(0, n, size):
                yield node[:start] + node[start + size :]
            if size == 1:
                break
            size //= 2
    elif isinstance(node, bool):
        if node:
            yield False
    elif isinstance(node, int):
        if node != 0:
            yield 0
            if abs(node) > 1:
                yield node // 2
            yield node - 1 if node > 0 else node + 1
    elif isinstance(node, str):
        n = len(node)
        if n:
            yield ""
            if n > 1:
                yield node[: n // 2]
                yield node[n // 2 :]
                yield node[:-1]
                yield node[1:]
