"""Harness-side redirection of clocks, entropy and the decoder thread body
(DESIGN.md 1.1).  Nothing in /repo is edited: module attributes are replaced
for the duration of a case and restored afterwards."""

from __future__ import annotations

import datetime
import itertools
import sys
from contextlib import ExitStack, contextmanager
from typing import Any, Callable, Iterable, Optional


class TimeShim:
    """Stands in for the `time` module inside one aiortc module."""

    def __init__(self, now: Callable[[], float]) -> None:
        self._now = now

    def time(self) -> float:
        return self._now()

    def __getattr__(self, name: str) -> Any:
        import time as real

        return getattr(real, name)


class RandomShim:
    """Stands in for the `random` module: deterministic, harness-chosen values."""

    def __init__(self, values: Optional[Iterable[float]] = None) -> None:
        self._it = itertools.cycle(list(values) if values is not None else [0.5])

    def random(self) -> float:
        return next(self._it)

    def __getattr__(self, name: str) -> Any:
        import random as real

        return getattr(real, name)


@contextmanager
def patched(module: Any, **attrs: Any):
    saved = {k: getattr(module, k) for k in attrs}
    for k, v in attrs.items():
        setattr(module, k, v)
    try:
        yield
    finally:
        for k, v in saved.items():
            setattr(module, k, v)


@contextmanager
def virtual_clocks(now: Callable[[], float], *, sctp: bool = True, rtp: bool = True, clock: bool = True):
    """Redirect every clock the library reads to `now()` (seconds since epoch)."""
    with ExitStack() as stack:
        shim = TimeShim(now)
        if sctp:
            import aiortc.rtcsctptransport as m

            stack.enter_context(patched(m, time=shim))
        if rtp:
            import aiortc.rtcrtpreceiver as r
            import aiortc.rtcrtpsender as s

            stack.enter_context(patched(r, time=shim))
            stack.enter_context(patched(s, time=shim))
        if clock:
            import aiortc.clock as c

            def current_datetime() -> datetime.datetime:
                return datetime.datetime.fromtimestamp(now(), tz=datetime.timezone.utc)

            stack.enter_context(patched(c, current_datetime=current_datetime))
        yield


def counter_from(values: Iterable[int], default: Optional[Callable[[], int]] = None) -> Callable[[], int]:
    """A replacement for random32/random16/random_sequence_number that returns the
    given values in order and then falls back to a fixed progression."""
    it = iter(list(values))
    state = {"n": 0}

    def draw() -> int:
        try:
            return next(it)
        except StopIteration:
            state["n"] += 1
            return default() if default else (0x1000 + 0x111 * state["n"]) & 0xFFFFFFFF

    return draw
