"""Shared Hypothesis strategies for SCTP session cases (C01, C02, C06, C13, C17)."""

from __future__ import annotations

from hypothesis import strategies as st

N_DELAYS = 8

fate_atom = st.one_of(
    st.just(["d", 0]), st.just(["d", 0]), st.just(["d", 0]),
    st.just(["x"]), st.just(["x"]),
    st.tuples(st.just("d"), st.integers(1, N_DELAYS - 1)).map(list),
    st.tuples(st.just("2"), st.integers(0, N_DELAYS - 1), st.integers(0, N_DELAYS - 1)).map(list),
)


@st.composite
def fate_list(draw, max_segments=12, loss_bias=False):
    if loss_bias and draw(st.integers(0, 3)) == 0:
        # a uniformly bad network: every datagram independently lost / duplicated / delayed
        lose, dup, late = draw(st.sampled_from([(3, 1, 2), (3, 1, 1), (5, 0, 1), (2, 2, 2), (1, 1, 4)]))
        pool = [["x"]] * lose + [["2", 0, 3], ["2", 5, 0], ["2", 0, 6]][:dup] + [["d", 2], ["d", 4], ["d", 6], ["d", 7]][:late]
        pool += [["d", 0]] * (10 - len(pool))
        return draw(st.lists(st.sampled_from(pool), min_size=20, max_size=250))
    out = []
    for _ in range(draw(st.integers(0, max_segments))):
        kind = draw(st.sampled_from(["ok", "ok", "dropburst", "mix", "mix", "isolated"] + (["dropburst", "isolated", "storm"] if loss_bias else [])))
        if kind == "storm":
            # heavy weather: many losses, delays beyond the retransmission time-out, duplicates
            out += draw(st.lists(st.sampled_from([["x"], ["x"], ["x"], ["d", 0], ["d", 0], ["d", 6], ["d", 7], ["d", 5], ["2", 0, 6], ["2", 7, 7]]),
                                 min_size=5, max_size=30))
        elif kind == "ok":
            out += [["d", 0]] * draw(st.integers(1, 30))
        elif kind == "dropburst":
            out += [["x"]] * draw(st.integers(1, 12))
        elif kind == "isolated":
            # one loss followed by enough deliveries to trigger three miss indications
            out += [["x"]] + [["d", 0]] * draw(st.integers(3, 8))
        else:
            out += draw(st.lists(fate_atom, min_size=1, max_size=30))
    return out[:400]


LENGTHS = [0, 1, 2, 100, 1199, 1200, 1201, 2400, 2401, 5000, 30000, 65535]
DTS = [0, 0, 0, 0, 1, 10, 100, 1000]


@st.composite
def send_op(draw, nchan, big=False):
    length = draw(st.one_of(st.sampled_from(LENGTHS if big else LENGTHS[:10]), st.integers(0, 3000)))
    op = {"op": "send", "ch": draw(st.integers(0, max(0, nchan - 1))), "side": draw(st.integers(0, 1)),
          "kind": draw(st.sampled_from(["str", "bytes"])), "len": length, "fill": draw(st.integers(0, 255)),
          "dt": draw(st.sampled_from(DTS))}
    if draw(st.integers(0, 11)) == 0:
        # a payload that looks like a protocol artefact (a lone NUL is what an empty message travels as, DCEP-like bytes)
        op["special"] = draw(st.integers(0, 7))
    return op


@st.composite
def create_op(draw, reliable_only=True, partial_only=False):
    op = {"op": "create", "side": draw(st.integers(0, 1)), "ordered": draw(st.booleans()), "mr": None, "mlt": None,
          "label": draw(st.sampled_from(["", "chat", "données"])), "protocol": "", "dt": draw(st.sampled_from([0, 0, 5, 50]))}
    if partial_only or (not reliable_only and draw(st.booleans())):
        if draw(st.booleans()):
            op["mr"] = draw(st.sampled_from([0, 1, 3]))
        else:
            op["mlt"] = draw(st.sampled_from([1, 50, 500, 3000]))
    return op


@st.composite
def session_case(draw, tier="quick", reliable_only=True, max_sends=40, loss_bias=False, burst_bias=False,
                 need_partial=False, warmup=False):
    nchan = draw(st.integers(1, 4))
    creates = [draw(create_op(reliable_only=reliable_only)) for _ in range(nchan)]
    if need_partial and all(c["mr"] is None and c["mlt"] is None for c in creates):
        creates[0] = draw(create_op(partial_only=True))
    n_before = draw(st.integers(0, nchan))  # channels created before start()
    ops = creates[:n_before]
    start_at = len(ops)
    ops += creates[n_before:]
    if draw(st.integers(0, 9)) != 0:
        ops.append({"op": "await_open", "max_ms": 60000})
    warmed = False
    if warmup and draw(st.booleans()):
        warmed = True
        # fault-free traffic first, so that the congestion window is wide open when the faults begin
        ch, side = draw(st.integers(0, nchan - 1)), draw(st.integers(0, 1))
        ops.append({"op": "faults", "on": False})
        ops += [{"op": "send", "ch": ch, "side": side, "kind": "bytes", "len": 1200, "fill": i, "dt": 0}
                for i in range(draw(st.integers(10, 50)))]
        ops.append({"op": "faults", "on": True, "dt": 3000})
    sends = draw(st.lists(send_op(nchan, big=True), min_size=1, max_size=max_sends))
    if burst_bias:
        # a burst several times the congestion window at time offset 0
        k = draw(st.integers(8, 30)) if warmed else draw(st.integers(4, 14))
        ch, side = draw(st.integers(0, nchan - 1)), draw(st.integers(0, 1))
        sends[0:0] = [{"op": "send", "ch": ch, "side": side, "kind": "bytes", "len": draw(st.sampled_from([1200, 2400, 5000])),
                       "fill": i, "dt": 0} for i in range(k)]
    ops += sends
    return {
        "client": draw(st.integers(0, 1)),
        "start_at": start_at,
        "ops": ops,
        "fates": [draw(fate_list(loss_bias=loss_bias)), draw(fate_list(loss_bias=loss_bias))],
    }


@st.composite
def rto_window_case(draw, tier="quick"):
    """Focused schedule space around one retransmission time-out (C02): fault-free warm-up (so cwnd is open and the RTO is
    at its 1 s floor), then a few chunks whose first transmissions and retransmissions are each lost, delivered, or delayed
    by about one RTO (0.9 / 1.1 / 1.5 / 2.2 s), acknowledgements mostly intact."""
    side = draw(st.integers(0, 1))
    ops = [{"op": "faults", "on": False},
           {"op": "create", "side": draw(st.integers(0, 1)), "ordered": draw(st.booleans()), "mr": None, "mlt": None, "label": "",
            "protocol": "", "dt": 0},
           {"op": "await_open", "max_ms": 60000}]
    ops += [{"op": "send", "ch": 0, "side": side, "kind": "bytes", "len": 1200, "fill": i, "dt": 0} for i in range(draw(st.integers(8, 20)))]
    ops.append({"op": "faults", "on": True, "dt": 3000})
    n = draw(st.integers(2, 6))
    if draw(st.booleans()):
        ops.append({"op": "send", "ch": 0, "side": side, "kind": "bytes", "len": 1200 * n, "fill": 1, "dt": 0})
    else:
        ops += [{"op": "send", "ch": 0, "side": side, "kind": "bytes", "len": draw(st.sampled_from([1200, 1200, 100, 2400])), "fill": i, "dt": 0}
                for i in range(n)]
    if draw(st.integers(0, 2)) == 0:
        ops.append({"op": "send", "ch": 0, "side": 1 - side, "kind": "bytes", "len": 1200, "fill": 9, "dt": draw(st.sampled_from([0, 500, 1500]))})
    data_pool = [["x"], ["x"], ["d", 0], ["d", 0], ["d", 8], ["d", 9], ["d", 6], ["d", 10], ["2", 0, 8], ["2", 8, 6]]
    ack_pool = [["d", 0]] * 7 + [["x"], ["d", 8], ["2", 0, 0]]
    data_fates = draw(st.lists(st.sampled_from(data_pool), min_size=3, max_size=24))
    ack_fates = draw(st.lists(st.sampled_from(ack_pool), min_size=0, max_size=24))
    fates = [data_fates, ack_fates] if side == 0 else [ack_fates, data_fates]
    return {"client": draw(st.integers(0, 1)), "start_at": 0, "ops": ops, "fates": fates}


def yielding(base):
    """The same case space with a datagram send that suspends (TURN channel bind / refresh, TCP relays): a per-datagram
    pattern of suspension lengths, cycled per side (vlib.sctpsim.FakeDtls._send_data)."""
    pattern = st.one_of(
        st.just([1]),
        st.lists(st.sampled_from([0, 0, 1, 1, 2, 3, 4, 5, 6]), min_size=1, max_size=12).filter(any),
    )
    return st.builds(lambda case, p: dict(case, yield_send=p), base, pattern)


@st.composite
def abandon_case(draw, tier="quick"):
    """Focused on FORWARD-TSN itself (C06): two to four partially reliable channels, most of them ordered, plus sometimes a
    reliable one; a fault-free opening; then small messages spread over several retransmission time-outs on alternating
    channels while one direction loses a third to two thirds of its datagrams (so that DATA, the FORWARD-TSN announcing its
    abandonment and the SACK answering it are each lost now and then, and a second message is abandoned on another stream
    while the first FORWARD-TSN is still unacknowledged)."""
    nchan = draw(st.integers(2, 4))
    creates = []
    for i in range(nchan):
        op = {"op": "create", "side": draw(st.integers(0, 1)), "ordered": draw(st.sampled_from([True, True, True, False])), "mr": None, "mlt": None,
              "label": "", "protocol": "", "dt": 0}
        if i == nchan - 1 and nchan > 2 and draw(st.booleans()):
            pass  # one reliable channel rides along
        elif draw(st.booleans()):
            op["mr"] = draw(st.sampled_from([0, 0, 1]))
        else:
            op["mlt"] = draw(st.sampled_from([1, 50, 500, 1500]))
        creates.append(op)
    ops = creates + [{"op": "await_open", "max_ms": 60000}]
    side = draw(st.integers(0, 1))
    sends = []
    for i in range(draw(st.integers(6, 30 if tier == "quick" else 50))):
        sends.append({"op": "send", "ch": draw(st.integers(0, nchan - 1)), "side": side if draw(st.integers(0, 5)) else 1 - side,
                      "kind": "bytes", "len": draw(st.sampled_from([1, 10, 100, 1200, 2400])), "fill": i,
                      "dt": draw(st.sampled_from([0, 0, 20, 300, 1100, 2100]))})
    ops += sends
    lose = draw(st.sampled_from([3, 4, 5, 6]))
    pool = [["x"]] * lose + [["d", 0]] * (9 - lose) + [["d", 6]]
    heavy = draw(st.lists(st.sampled_from(pool), min_size=30, max_size=200))
    light = draw(st.lists(st.sampled_from([["d", 0]] * 5 + [["x"], ["d", 4]]), max_size=120))
    # the handshake and the channel openings run fault-free: the first datagrams of either side are delivered
    lead = [["d", 0]] * (6 + 2 * nchan)
    fates = [lead + heavy, lead + light] if side == 0 else [lead + light, lead + heavy]
    return {"client": draw(st.integers(0, 1)), "start_at": 0, "ops": ops, "fates": fates}


def bundling(base):
    """The same case space with a sender that bundles: the datagrams an endpoint produces in one loop turn leave as packets
    of up to n chunks (pattern of n cycled per packet and side; INIT / INIT-ACK travel alone, packets stay below 1400 bytes)."""
    pattern = st.one_of(st.just([8]), st.just([2]), st.lists(st.sampled_from([1, 2, 2, 3, 8]), min_size=1, max_size=8).filter(lambda p: max(p) > 1))
    return st.builds(lambda case, p: dict(case, bundle=p), base, pattern)
