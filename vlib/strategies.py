"""Shared Hypothesis strategies for SCTP session cases (C01, C02, C06, C13, C17)."""

from __future__ import annotations

from hypothesis import strategies as st

N_DELAYS = 8

fate_atom = st.one_of(
    st.just(["d", 0]), st.just(["d", 0]), st.just(["d", 0]),
    st.just(["x"]), st.just(["x"]),
    st.tuples(st.just("d"), st.integers(1, N_DELAYS - 1)).map(list),
    st.tuples(st.just("2"), st.integers(0, N_DELAYS - 1), st.integers(0, N_DELAYS - 1)).map(list),
)


@st.composite
def fate_list(draw, max_segments=12, loss_bias=False):
    out = []
    for _ in range(draw(st.integers(0, max_segments))):
        kind = draw(st.sampled_from(["ok", "ok", "dropburst", "mix", "mix", "isolated"] + (["dropburst", "isolated"] if loss_bias else [])))
        if kind == "ok":
            out += [["d", 0]] * draw(st.integers(1, 30))
        elif kind == "dropburst":
            out += [["x"]] * draw(st.integers(1, 12))
        elif kind == "isolated":
            # one loss followed by enough deliveries to trigger three miss indications
            out += [["x"]] + [["d", 0]] * draw(st.integers(3, 8))
        else:
            out += draw(st.lists(fate_atom, min_size=1, max_size=30))
    return out[:400]


LENGTHS = [0, 1, 2, 100, 1199, 1200, 1201, 2400, 2401, 5000, 30000, 65535]
DTS = [0, 0, 0, 0, 1, 10, 100, 1000]


@st.composite
def send_op(draw, nchan, big=False):
    length = draw(st.one_of(st.sampled_from(LENGTHS if big else LENGTHS[:10]), st.integers(0, 3000)))
    return {"op": "send", "ch": draw(st.integers(0, max(0, nchan - 1))), "side": draw(st.integers(0, 1)),
            "kind": draw(st.sampled_from(["str", "bytes"])), "len": length, "fill": draw(st.integers(0, 255)),
            "dt": draw(st.sampled_from(DTS))}


@st.composite
def create_op(draw, reliable_only=True, partial_only=False):
    op = {"op": "create", "side": draw(st.integers(0, 1)), "ordered": draw(st.booleans()), "mr": None, "mlt": None,
          "label": draw(st.sampled_from(["", "chat", "données"])), "protocol": "", "dt": draw(st.sampled_from([0, 0, 5, 50]))}
    if partial_only or (not reliable_only and draw(st.booleans())):
        if draw(st.booleans()):
            op["mr"] = draw(st.sampled_from([0, 1, 3]))
        else:
            op["mlt"] = draw(st.sampled_from([1, 50, 500, 3000]))
    return op


@st.composite
def session_case(draw, tier="quick", reliable_only=True, max_sends=40, loss_bias=False, burst_bias=False,
                 need_partial=False):
    nchan = draw(st.integers(1, 4))
    creates = [draw(create_op(reliable_only=reliable_only)) for _ in range(nchan)]
    if need_partial and all(c["mr"] is None and c["mlt"] is None for c in creates):
        creates[0] = draw(create_op(partial_only=True))
    n_before = draw(st.integers(0, nchan))  # channels created before start()
    ops = creates[:n_before]
    start_at = len(ops)
    ops += creates[n_before:]
    if draw(st.integers(0, 9)) != 0:
        ops.append({"op": "await_open", "max_ms": 60000})
    sends = draw(st.lists(send_op(nchan, big=True), min_size=1, max_size=max_sends))
    if burst_bias:
        # a burst several times the congestion window at time offset 0
        k = draw(st.integers(4, 14))
        ch, side = draw(st.integers(0, nchan - 1)), draw(st.integers(0, 1))
        sends[0:0] = [{"op": "send", "ch": ch, "side": side, "kind": "bytes", "len": draw(st.sampled_from([1200, 2400, 5000])),
                       "fill": i, "dt": 0} for i in range(k)]
    ops += sends
    return {
        "client": draw(st.integers(0, 1)),
        "start_at": start_at,
        "ops": ops,
        "fates": [draw(fate_list(loss_bias=loss_bias)), draw(fate_list(loss_bias=loss_bias))],
    }
