"""Peer-connection level simulation (DESIGN.md 1.2): real RTCPeerConnection
objects, real aioice over loopback UDP, real OpenSSL DTLS, on the virtual-time
loop.  Media comes from tracks that yield pre-encoded av.Packet objects (no
encoder thread pool); the decoder thread body is replaced by a tap."""

from __future__ import annotations

import asyncio
import fractions
import logging
import threading
from contextlib import contextmanager
from typing import Any, Callable, Optional

import av

import aiortc.rtcrtpreceiver as RX
import aiortc.rtcrtpsender as TX
from aiortc import RTCConfiguration, RTCPeerConnection
from aiortc.mediastreams import MediaStreamError, MediaStreamTrack
from aiortc.rtcconfiguration import RTCBundlePolicy

from . import vloop
from .patches import RandomShim, patched, virtual_clocks

logging.getLogger("aiortc").setLevel(logging.CRITICAL)
logging.getLogger("aioice").setLevel(logging.CRITICAL)

BUNDLE = {"balanced": RTCBundlePolicy.BALANCED, "max-compat": RTCBundlePolicy.MAX_COMPAT, "max-bundle": RTCBundlePolicy.MAX_BUNDLE}


class PacketTrack(MediaStreamTrack):
    """Yields pre-encoded packets at a fixed virtual-time pace."""

    def __init__(self, kind: str, interval: float = 0.02, size: int = 60, limit: Optional[int] = None) -> None:
        super().__init__()
        self.kind = kind
        self.interval = interval
        self.size = size
        self.count = 0
        self.limit = limit

    async def recv(self) -> av.Packet:
        if self.readyState != "live":
            raise MediaStreamError
        await asyncio.sleep(self.interval)
        if self.limit is not None and self.count >= self.limit:
            self.stop()
            raise MediaStreamError
        self.count += 1
        body = (b"\x10" if self.kind == "video" else b"") + (b"%06d" % self.count) * (self.size // 6 + 1)
        pkt = av.Packet(body[: self.size])
        pkt.pts = self.count * (3000 if self.kind == "video" else 960)
        pkt.time_base = fractions.Fraction(1, 90000 if self.kind == "video" else 48000)
        return pkt


class DecoderTap:
    """Replacement for aiortc.rtcrtpreceiver.decoder_worker: records what the decoder would be handed.  With busy_ms each
    thread spends that much real time on its first frames (20 ms apiece), like a decoder that is still working when
    something else happens; the total is bounded, so joining such a thread always ends."""

    def __init__(self, busy_ms: int = 0) -> None:
        self.frames: list = []
        self.lock = threading.Lock()
        self.busy_ms = busy_ms

    def __call__(self, loop: Any, input_q: Any, output_q: Any) -> None:
        import time

        budget = self.busy_ms
        while True:
            task = input_q.get()
            if task is None:
                asyncio.run_coroutine_threadsafe(output_q.put(None), loop)
                break
            codec, frame = task
            if budget > 0:
                time.sleep(0.02)
                budget -= 20
            with self.lock:
                self.frames.append((codec.mimeType, frame.timestamp, bytes(frame.data)))


class ThreadRegistry:
    """Stands in for the `threading` module inside aiortc.rtcrtpreceiver: records every thread the receivers create together
    with its arguments, so that a thread can be attributed to the connection that owns it."""

    def __init__(self) -> None:
        self.created: list = []

    def Thread(self, *a: Any, **kw: Any) -> threading.Thread:  # noqa: N802
        t = threading.Thread(*a, **kw)
        self.created.append((t, kw.get("args", ())))
        return t

    def __getattr__(self, name: str) -> Any:
        return getattr(threading, name)

    def of_connection(self, pc: Any) -> list:
        queues = [r._track._queue for r in pc.getReceivers() if getattr(r, "_track", None) is not None]
        return [t for t, args in self.created if len(args) >= 3 and any(args[2] is q for q in queues)]


def make_pc(bundle: str = "balanced", always_dc: bool = False) -> RTCPeerConnection:
    cfg = RTCConfiguration(iceServers=[], bundlePolicy=BUNDLE.get(bundle, RTCBundlePolicy.BALANCED))
    if always_dc:
        cfg.alwaysNegotiateDataChannels = True
    return RTCPeerConnection(cfg)


class EventLog:
    """Listeners on a peer connection: state changes, tracks, data channels, messages."""

    def __init__(self, name: str, pc: RTCPeerConnection, loop: vloop.VLoop) -> None:
        self.name = name
        self.pc = pc
        self.loop = loop
        self.events: list = []
        self.channels: list = []  # channels announced by 'datachannel'
        self.messages: dict = {}  # id(channel) -> list
        self.tracks: list = []
        for ev in ("signalingstatechange", "iceconnectionstatechange", "connectionstatechange", "icegatheringstatechange"):
            pc.on(ev, lambda ev=ev: self.events.append((round(loop.time(), 4), ev, self._state(ev))))
        pc.on("datachannel", self._on_channel)
        pc.on("track", self._on_track)

    def _state(self, ev: str) -> str:
        return {"signalingstatechange": self.pc.signalingState, "iceconnectionstatechange": self.pc.iceConnectionState,
                "connectionstatechange": self.pc.connectionState, "icegatheringstatechange": self.pc.iceGatheringState}[ev]

    def _on_channel(self, ch: Any) -> None:
        self.events.append((round(self.loop.time(), 4), "datachannel", ch.id))
        self.channels.append(ch)
        self.watch_channel(ch)

    def watch_channel(self, ch: Any) -> None:
        self.messages.setdefault(id(ch), [])
        ch.on("message", lambda m, ch=ch: self.messages[id(ch)].append(m))
        for ev in ("open", "close"):
            ch.on(ev, lambda ev=ev, ch=ch: self.events.append((round(self.loop.time(), 4), "channel-" + ev, ch.id)))

    def _on_track(self, track: Any) -> None:
        self.events.append((round(self.loop.time(), 4), "track", track.kind))
        self.tracks.append(track)
        track.on("ended", lambda: self.events.append((round(self.loop.time(), 4), "track-ended", track.kind)))


async def wait_for(predicate: Callable[[], bool], timeout: float = 30.0, step: float = 0.05) -> bool:
    loop = asyncio.get_event_loop()
    end = loop.time() + timeout
    while loop.time() < end:
        if predicate():
            return True
        await asyncio.sleep(step)
    return predicate()


@contextmanager
def pc_environment(tap: Optional[DecoderTap] = None, yield_send: bool = False, threads: Optional[ThreadRegistry] = None):
    """Clock / RNG / decoder redirection for a peer-connection simulation.  With yield_send the ICE transports' datagram
    send suspends for one loop turn first, as a TURN-relayed path does while it binds or refreshes a channel."""
    import aioice.ice as ICE  # (RTCIceTransport binds Connection.send when it is constructed, inside the simulation)

    tap = tap or DecoderTap()
    now = lambda: asyncio.get_event_loop().wall()  # noqa: E731
    orig_send = ICE.Connection.send

    async def yielding_send(self, data: bytes) -> None:
        await asyncio.sleep(0)
        await orig_send(self, data)

    with virtual_clocks(now), patched(RX, decoder_worker=tap, random=RandomShim([0.5]), threading=threads or threading), \
            patched(TX, random=RandomShim([0.5])), \
            patched(ICE.Connection, send=yielding_send if yield_send else orig_send):
        yield tap


def run_pc_sim(main: Callable[[vloop.VLoop], Any], *, max_iterations: int = 3_000_000, cpu_seconds: float = 120.0,
               tap: Optional[DecoderTap] = None, yield_send: bool = False, threads: Optional[ThreadRegistry] = None) -> Any:
    with pc_environment(tap, yield_send, threads):
        return vloop.run_sim(main, max_iterations=max_iterations, cpu_seconds=cpu_seconds)


def library_tasks(loop: asyncio.AbstractEventLoop, ignore: set) -> list:
    """Tasks still pending that were not created by the harness."""
    out = []
    for t in asyncio.all_tasks(loop):
        if t.done() or t in ignore:
            continue
        out.append(t)
    return out


def decoder_threads() -> list:
    return [t for t in threading.enumerate() if t.name.endswith("-decoder")]
