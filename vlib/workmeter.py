"""Deterministic work counter (DESIGN.md C05/O2): counts LINE and JUMP events
executed inside aiortc code objects via sys.monitoring and raises
WorkBudgetExceeded from the callback when a budget is exceeded, which turns an
endless loop in the code under test into an ordinary, replayable failure."""

from __future__ import annotations

import os
import sys
from contextlib import contextmanager

TOOL = 4  # a free tool id (0-5); 4 is not reserved by debuggers/profilers/coverage
_mon = sys.monitoring
_E = _mon.events


class WorkBudgetExceeded(Exception):
    pass


class _State:
    active = False
    count = 0
    budget = 0
    installed = False
    tripped = False


def _src_prefix() -> str:
    import aiortc

    return os.path.dirname(os.path.abspath(aiortc.__file__)) + os.sep


_PREFIX = None


def _on_line(code, line):  # type: ignore[no-untyped-def]
    if not code.co_filename.startswith(_PREFIX):
        return _mon.DISABLE
    if _State.active:
        _State.count += 1
        if _State.count > _State.budget and not _State.tripped:
            _State.tripped = True
            raise WorkBudgetExceeded(f"more than {_State.budget} line/jump events inside aiortc")
    return None


def _on_jump(code, src, dst):  # type: ignore[no-untyped-def]
    return _on_line(code, 0)


def install() -> None:
    global _PREFIX
    if _State.installed:
        return
    _PREFIX = _src_prefix()
    try:
        _mon.use_tool_id(TOOL, "verif-workmeter")
    except ValueError:
        pass
    _mon.register_callback(TOOL, _E.LINE, _on_line)
    _mon.register_callback(TOOL, _E.JUMP, _on_jump)
    _mon.set_events(TOOL, _E.LINE | _E.JUMP)
    _State.installed = True


class Meter:
    def __init__(self) -> None:
        self.count = 0
        self.exceeded = False


@contextmanager
def work_meter(budget: int):
    """Counts aiortc LINE/JUMP events inside the block; raises WorkBudgetExceeded inside the
    monitored code once `budget` is exceeded (once; afterwards the code is allowed to unwind)."""
    install()
    m = Meter()
    _State.count = 0
    _State.budget = budget
    _State.tripped = False
    _State.active = True
    try:
        yield m
    finally:
        _State.active = False
        m.count = _State.count
        m.exceeded = _State.tripped
