"""SCTP association pair over an in-memory datagram link on the virtual-time
loop (DESIGN.md 1.2): FakeDtls endpoints, per-datagram fate lists, program
execution, transcript recording.  Used by C01, C02, C06, C13, C17 and C05."""

from __future__ import annotations

import asyncio
import logging
import struct
from collections import deque
from dataclasses import dataclass, field
from typing import Any, Callable, Optional

import aiortc.rtcsctptransport as S
from google_crc32c import value as crc32c
from aiortc.rtcdatachannel import RTCDataChannel, RTCDataChannelParameters

from . import vloop
from .patches import TimeShim, counter_from, patched

logging.getLogger("aiortc").setLevel(logging.CRITICAL)

YIELD_MS = [0, 0, 1, 5, 30, 200, 1200]
DELAYS_MS = [0, 1, 5, 20, 100, 400, 1500, 4000, 1100, 900, 2200]  # appended values keep the meaning of older replays
BASE_LATENCY = 0.010


BUNDLE_MTU = 1400


def chunk_types(data: bytes) -> list:
    """Types of the chunks of an SCTP packet (the link may bundle, so taps must not look at the first chunk only)."""
    out = []
    pos = 12
    while pos + 4 <= len(data):
        length = int.from_bytes(data[pos + 2:pos + 4], "big")
        if length < 4:
            break
        out.append(data[pos])
        pos += length + (-length % 4)
    return out


def bundleable(first: bytes, nxt: bytes) -> bool:
    """Same association header, and neither packet carries a chunk that must travel alone (INIT, INIT-ACK, SHUTDOWN-COMPLETE)."""
    return len(first) > 12 and len(nxt) > 12 and first[:8] == nxt[:8] and \
        not ({1, 2, 14} & set(chunk_types(first) + chunk_types(nxt)))


class FakeIce:
    def __init__(self, role: str) -> None:
        self.role = role


class FakeDtls:
    """Exactly the five members RTCSctpTransport uses."""

    def __init__(self, link: "Link", side: int, role: str) -> None:
        self.transport = FakeIce(role)
        self.state = "connected"
        self._link = link
        self._side = side
        self._data_receiver: Any = None
        self._sent = 0

    def _register_data_receiver(self, receiver: Any) -> None:
        assert self._data_receiver is None
        self._data_receiver = receiver

    def _unregister_data_receiver(self, receiver: Any) -> None:
        if self._data_receiver == receiver:
            self._data_receiver = None

    async def _send_data(self, data: bytes) -> None:
        if self.state != "connected":
            raise ConnectionError("Cannot send encrypted data, not connected")
        pattern = self._link.yield_on_send
        if pattern:
            # a transport whose send suspends (TURN channel bind / refresh, TCP relay): other tasks of the
            # endpoint run in between.  The pattern is cycled per datagram of this side: 0 = no suspension,
            # 1 = one loop iteration, k>1 = YIELD_MS[k] virtual milliseconds
            k = pattern[self._sent % len(pattern)]
            self._sent += 1
            if k == 1:
                await asyncio.sleep(0)
            elif k > 1:
                await asyncio.sleep(YIELD_MS[k % len(YIELD_MS)] / 1000)
            if self.state != "connected":
                return
        self._link.send(self._side, data)


class Link:
    def __init__(self, loop: vloop.VLoop, fates: list) -> None:
        self.loop = loop
        self.fates = [deque(fates[0]), deque(fates[1])]
        self.healed = False
        self.yield_on_send = []  # see FakeDtls._send_data
        self.bundle: list = []  # pattern of bundle sizes, cycled per packet and side; empty = one chunk per packet
        self._pending: list = [[], []]
        self._flush_scheduled = [False, False]
        self._bundle_idx = [0, 0]
        self.bundled = [0, 0]
        self.paused = False  # while set, datagrams are delivered normally and no fate is consumed (warm-up phases)
        self.inbox = [deque(), deque()]
        self.wakeup = [asyncio.Event(), asyncio.Event()]
        self.sent = [0, 0]
        self.dropped = [0, 0]
        self.duplicated = [0, 0]
        self.delayed = [0, 0]
        self.faults_after_established = 0
        self.established = lambda: False
        self.tap: Optional[Callable[[int, bytes], None]] = None  # sees every datagram put on the wire
        self.dead = [False, False]
        self.drop_tap: Optional[Callable[[int, bytes], None]] = None  # sees every datagram the link drops

    def heal(self) -> None:
        self.healed = True
        # a recovered network includes the relay: sends may still suspend, but no longer for a length of time
        self.yield_on_send = [min(k, 1) for k in self.yield_on_send]
        self.fates[0].clear()
        self.fates[1].clear()

    def send(self, side: int, data: bytes) -> None:
        if self.bundle:
            # a sender that bundles (as usrsctp and the kernel stacks do): the datagrams of one loop turn are collected and
            # leave as packets of several chunks
            self._pending[side].append(data)
            if not self._flush_scheduled[side]:
                self._flush_scheduled[side] = True
                self.loop.call_soon(self._flush, side)
            return
        self._send_now(side, data)

    def _flush(self, side: int) -> None:
        self._flush_scheduled[side] = False
        pend, self._pending[side] = self._pending[side], []
        i = 0
        while i < len(pend):
            n = self.bundle[self._bundle_idx[side] % len(self.bundle)]
            self._bundle_idx[side] += 1
            group = [pend[i]]
            i += 1
            while len(group) < n and i < len(pend) and bundleable(group[0], pend[i]) and sum(map(len, group)) + len(pend[i]) <= BUNDLE_MTU:
                group.append(pend[i][12:])
                i += 1
            if len(group) > 1:
                self.bundled[side] += 1
                body = b"".join(group)
                body = body[0:8] + b"\0\0\0\0" + body[12:]
                group = [body[0:8] + struct.pack("<L", crc32c(body)) + body[12:]]
            self._send_now(side, group[0])

    def _send_now(self, side: int, data: bytes) -> None:
        self.sent[side] += 1
        if self.tap:
            self.tap(side, data)
        fate = self.fates[side].popleft() if (self.fates[side] and not self.healed and not self.paused) else ["d", 0]
        if not isinstance(fate, (list, tuple)) or not fate or fate[0] not in ("d", "x", "2") or \
                not all(isinstance(x, int) for x in fate[1:]):
            fate = ["d", 0]  # malformed entries (only ddmin produces them) mean "deliver"
        kind = fate[0]
        peer = 1 - side
        if kind == "x":
            self.dropped[side] += 1
            if self.drop_tap:
                self.drop_tap(side, data)
            if self.established():
                self.faults_after_established += 1
            return
        if kind == "2":
            self.duplicated[side] += 1
            if self.established():
                self.faults_after_established += 1
            for d in fate[1:3]:
                self._schedule(peer, data, DELAYS_MS[d % len(DELAYS_MS)])
            return
        d = DELAYS_MS[fate[1] % len(DELAYS_MS)] if len(fate) > 1 else 0
        if d:
            self.delayed[side] += 1
            if self.established():
                self.faults_after_established += 1
        self._schedule(peer, data, d)

    def _schedule(self, peer: int, data: bytes, delay_ms: int) -> None:
        self.loop.call_later(BASE_LATENCY + delay_ms / 1000.0, self._deliver, peer, data)

    def _deliver(self, peer: int, data: bytes) -> None:
        if self.dead[peer]:
            return
        self.inbox[peer].append(data)
        self.wakeup[peer].set()

    def inject(self, peer: int, data: bytes) -> None:
        """Datagram from 'the network' that no endpoint sent (C05)."""
        self._deliver(peer, data)


@dataclass
class ChannelRec:
    idx: int
    creator: int
    params: dict
    objs: dict = field(default_factory=dict)  # side -> RTCDataChannel
    sent: dict = field(default_factory=lambda: {0: [], 1: []})  # by sending side
    delivered: dict = field(default_factory=lambda: {0: [], 1: []})  # by sending side (received by 1-side)
    states: dict = field(default_factory=lambda: {0: [], 1: []})
    events: dict = field(default_factory=lambda: {0: [], 1: []})
    created_at_op: int = 0
    id_at_create: Optional[int] = None


SPECIAL_VALUES = [b"\x00", b"\x00\x00", b"\x00" * 1200, b"\xff", b" ", b"\x03\x00\x00\x00", b"\x02", b"\x00" * 1201]


def make_value(ch: int, side: int, n: int, kind: str, length: int, fill: int) -> Any:
    if length <= 0:
        return "" if kind == "str" else b""
    tag = f"{ch}.{side}.{n}|"
    if kind == "str":
        alphabet = ["a", "é", "€", "\U0001f600", "z"]
        out = [tag]
        size = len(tag)
        i = fill
        while size < length:
            c = alphabet[i % len(alphabet)]
            out.append(c)
            size += len(c.encode("utf8"))
            i += 1 + (fill % 3)
        s = "".join(out)
        if len(tag) > length:
            s = tag[:length]
        return s
    raw = tag.encode()
    if length <= len(raw):
        return raw[:length]
    return raw + bytes(((i * 7 + fill) & 0xFF) for i in range(length - len(raw)))


class Session:
    """Runs one session case; checks are plugged in through the callbacks."""

    def __init__(self, case: dict, *, tsn: Optional[list] = None) -> None:
        self.case = case
        self.problems: list = []  # (kind, message) found by the built-in transcript oracle
        self.channels: list = []
        self.unpaired: list = []  # channel objects announced by 'datachannel' that pair with nothing
        self.datachannel_events: list = []  # (side, id, label, protocol, ordered, mr, mlt)
        self.skipped_sends = 0
        self.api_errors: list = []
        self.tsn_values = tsn
        self.on_message: Optional[Callable] = None
        self.t3_expiries = [0, 0]
        self.fast_retransmits = 0
        self.forward_tsn_sent = 0
        self.max_burst_over_cwnd = False
        self.endpoint_exc: list = [None, None]
        self.loop: Optional[vloop.VLoop] = None
        self.sctp: list = []
        self.link: Optional[Link] = None
        self.after_ops: Optional[Callable] = None  # coroutine fn(session) run after the program, before healing/draining
        self.after_drain: Optional[Callable] = None  # coroutine fn(session) run after the first drain
        self.idle_status = None
        self.was_established = [False, False]
        self.stall: Optional[str] = None
        self.virtual_end = 0.0
        self.meter_budget: Optional[Callable[[int, bytes], int]] = None  # per-datagram work budget (C05)
        self.max_work = 0
        self.extra_op: Optional[Callable[[int, dict], None]] = None  # handler for op kinds the simulator does not know
        self.handing_over: list = [{}, {}]
        self.on_attach: Optional[Callable] = None  # fn(rec, side, channel) when a channel object becomes known
        self.after_each_op: Optional[Callable] = None  # fn(n, op) after every program step (sampling point)

    # ------------------------------------------------------------------
    def _chan_by_obj(self, obj: Any) -> Optional[tuple]:
        for rec in self.channels:
            for side, o in rec.objs.items():
                if o is obj:
                    return rec, side
        return None

    def _attach(self, rec: ChannelRec, side: int, ch: RTCDataChannel) -> None:
        rec.objs[side] = ch
        rec.states[side].append(ch.readyState)
        if self.on_attach:
            self.on_attach(rec, side, ch)

        def on_open() -> None:
            rec.events[side].append("open")
            rec.states[side].append(ch.readyState)

        def on_close() -> None:
            rec.events[side].append("close")
            rec.states[side].append(ch.readyState)

        def on_low() -> None:
            rec.events[side].append("bufferedamountlow")

        def on_msg(message: Any) -> None:
            sender = 1 - side
            rec.delivered[sender].append(message)
            self._check_delivery(rec, sender)
            if self.on_message:
                self.on_message(rec, sender, message)

        ch.on("open", on_open)
        ch.on("close", on_close)
        ch.on("bufferedamountlow", on_low)
        ch.on("message", on_msg)

    def _check_delivery(self, rec: ChannelRec, sender: int) -> None:
        """C01/C06 transcript oracle, evaluated at every message event."""
        sent, got = rec.sent[sender], rec.delivered[sender]
        p = rec.params
        reliable = p.get("mr") is None and p.get("mlt") is None
        msg = got[-1]
        where = f"channel {rec.idx} ({'ordered' if p['ordered'] else 'unordered'}, {'reliable' if reliable else 'partial'}) {sender}->{1 - sender}"
        if p["ordered"] and reliable:
            k = len(got) - 1
            if k >= len(sent):
                self.problems.append(("extra-message", f"{where}: message #{k} delivered but only {len(sent)} were sent: {_short(msg)}"))
            elif type(sent[k]) is not type(msg) or sent[k] != msg:
                kind = "duplicate" if any(type(m) is type(msg) and m == msg for m in got[:-1]) and msg not in ("", b"") else \
                    ("reordered-or-lost" if any(type(m) is type(msg) and m == msg for m in sent) else "corrupted")
                self.problems.append((kind, f"{where}: delivery #{k} is {_short(msg)}, expected {_short(sent[k])}"))
        else:
            n_sent = sum(1 for m in sent if type(m) is type(msg) and m == msg)
            n_got = sum(1 for m in got if type(m) is type(msg) and m == msg)
            if n_sent == 0:
                self.problems.append(("corrupted", f"{where}: delivered {_short(msg)} which was never sent on this channel"))
            elif n_got > n_sent:
                self.problems.append(("duplicate", f"{where}: {_short(msg)} delivered {n_got} times, sent {n_sent} times"))
            elif p["ordered"]:
                # partially reliable ordered: delivered must be a subsequence of sent
                it = iter(sent)
                if not all(any(type(x) is type(m) and x == m for x in it) for m in got):
                    self.problems.append(("reordered", f"{where}: deliveries are not in sending order (last {_short(msg)})"))

    # ------------------------------------------------------------------
    async def _pump(self, side: int) -> None:
        link = self.link
        assert link is not None
        while True:
            while not link.inbox[side]:
                link.wakeup[side].clear()
                await link.wakeup[side].wait()
            data = link.inbox[side].popleft()
            receiver = self.dtls[side]._data_receiver
            if receiver is None:
                continue
            try:
                if self.meter_budget is not None:
                    from .workmeter import work_meter

                    with work_meter(self.meter_budget(side, data)) as meter:
                        await receiver._handle_data(data)
                    self.max_work = max(self.max_work, meter.count)
                else:
                    await receiver._handle_data(data)
            except Exception as exc:  # what RTCDtlsTransport.__run would turn into CLOSED
                self.endpoint_exc[side] = exc
                self.dtls[side].state = "closed"
                link.dead[side] = True
                return

    def _instrument(self, side: int, t: S.RTCSctpTransport) -> None:
        orig_t3 = t._t3_expired
        sess = self

        def t3_expired() -> None:
            sess.t3_expiries[side] += 1
            sess._on_t3(side)
            orig_t3()

        t._t3_expired = t3_expired  # type: ignore[method-assign]
        orig_set_state = t._set_state

        def set_state(state: Any) -> None:
            if state == t.State.ESTABLISHED:
                sess.was_established[side] = True
            orig_set_state(state)

        t._set_state = set_state  # type: ignore[method-assign]
        # user bytes whose hand-over to the association (RTCSctpTransport._send) is in progress; only non-empty at a
        # sample point when the datagram send suspends
        orig_send = t._send
        handing = self.handing_over[side]

        async def send(stream_id: int, pp_id: int, user_data: bytes, **kw: Any) -> None:
            if pp_id != 50:
                handing[stream_id] = handing.get(stream_id, 0) + len(user_data)
            try:
                await orig_send(stream_id, pp_id, user_data, **kw)
            finally:
                if pp_id != 50:
                    handing[stream_id] -= len(user_data)

        t._send = send  # type: ignore[method-assign]

        def on_dc(ch: RTCDataChannel) -> None:
            self.datachannel_events.append(
                (side, ch.id, ch.label, ch.protocol, ch.ordered, ch.maxRetransmits, ch.maxPacketLifeTime))
            # pair with the open creator channel of the same id on the other side
            for rec in reversed(self.channels):
                o = rec.objs.get(1 - side)
                if rec.creator == 1 - side and side not in rec.objs and o is not None and o.id == ch.id \
                        and rec.params.get("neg_id") is None:
                    self._attach(rec, side, ch)
                    return
            self.unpaired.append((side, ch))

        t.on("datachannel", on_dc)

    # progress bookkeeping for the C02 livelock verdict
    def _progress_sig(self) -> tuple:
        sig = []
        for t in self.sctp:
            sig.append((t._last_sacked_tsn, len(t._sent_queue), len(t._outbound_queue), len(t._data_channel_queue),
                        t._last_received_tsn, t._advanced_peer_ack_tsn))
        sig.append(sum(len(r.delivered[0]) + len(r.delivered[1]) for r in self.channels))
        return tuple(sig)

    def _on_t3(self, side: int) -> None:
        if not (self.link and self.link.healed):
            return
        sig = self._progress_sig()
        if sig == self._last_sig:
            self._no_progress += 1
            if self._no_progress >= 5 and self.stall is None:
                self.stall = (f"5 consecutive T3 expiries in the fault-free suffix without progress "
                              f"(side {side}, sent_queue={len(self.sctp[side]._sent_queue)}, flight={self.sctp[side]._flight_size}, "
                              f"cwnd={self.sctp[side]._cwnd})")
        else:
            self._no_progress = 0
            self._last_sig = sig

    # ------------------------------------------------------------------
    def run(self, *, max_iterations: int = 600000, horizon: float = 900.0) -> "Session":
        tsn = self.tsn_values

        async def main(loop: vloop.VLoop) -> None:
            await self._main(loop, horizon)

        shim = TimeShim(lambda: asyncio.get_event_loop().wall())
        rnd = counter_from(tsn or [0x10000001, 0x20000002, 0x30000003, 0x40000004])
        try:
            with patched(S, time=shim, random32=rnd):
                vloop.run_sim(main, max_iterations=max_iterations, cpu_seconds=120)
        except vloop.SimAbort as exc:
            self.abort = exc
        return self

    abort: Optional[BaseException] = None
    _last_sig: Any = None
    _no_progress = 0

    async def _main(self, loop: vloop.VLoop, horizon: float) -> None:
        case = self.case
        self.loop = loop
        link = Link(loop, case.get("fates", [[], []]))
        link.bundle = [b for b in (case.get("bundle") or []) if isinstance(b, int) and b >= 1]
        ys = case.get("yield_send")
        link.yield_on_send = [1] if ys is True else list(ys or [])
        self.link = link
        client = case.get("client", 0)
        self.dtls = [FakeDtls(link, 0, "controlling" if client == 0 else "controlled"),
                     FakeDtls(link, 1, "controlling" if client == 1 else "controlled")]
        # constructor order decides who draws which random32 values: side 0 first
        self.sctp = [S.RTCSctpTransport(self.dtls[0], port=5000), S.RTCSctpTransport(self.dtls[1], port=5000)]
        link.established = lambda: all(t._association_state == t.State.ESTABLISHED for t in self.sctp)
        for side, t in enumerate(self.sctp):
            self._instrument(side, t)
        pumps = [asyncio.ensure_future(self._pump(0)), asyncio.ensure_future(self._pump(1))]
        started = False
        caps = S.RTCSctpTransport.getCapabilities()

        async def start() -> None:
            nonlocal started
            if not started:
                started = True
                # server first so that an immediate INIT finds a registered receiver
                order = [1 - client, client]
                for s in order:
                    await self.sctp[s].start(caps, 5000)

        start_at = case.get("start_at", 0)
        for n, op in enumerate(case.get("ops", [])):
            if n == start_at:
                await start()
            dt = op.get("dt", 0)
            if dt:
                await asyncio.sleep(dt / 1000.0)
            if op.get("op") == "await_open":
                # wait (virtual time) until every channel created so far is open on its creator side
                limit = loop.time() + op.get("max_ms", 60000) / 1000.0
                while loop.time() < limit and any(
                        r.objs[r.creator].readyState == "connecting" for r in self.channels):
                    await asyncio.sleep(0.05)
                continue
            try:
                self._do(n, op)
            except Exception as exc:
                self.api_errors.append((n, op.get("op"), repr(exc), exc))
            if op.get("op") == "stop":
                try:
                    await self.sctp[op["side"] % 2].stop()
                except Exception as exc:
                    self.api_errors.append((n, "stop", repr(exc), exc))
            await asyncio.sleep(0)
            if self.after_each_op:
                self.after_each_op(n, op)
        await start()
        if self.after_ops:
            await self.after_ops(self)
        # fault-free suffix
        link.heal()
        self._last_sig = self._progress_sig()
        self.idle_status = await self._drain(loop, horizon)
        if self.after_drain and self.stall is None:
            await self.after_drain(self)
            self.idle_status = await self._drain(loop, horizon)
        self.virtual_end = loop.time()
        for p in pumps:
            p.cancel()

    async def _drain(self, loop: vloop.VLoop, horizon: float) -> str:
        deadline = loop.time() + horizon
        while True:
            status = await loop.until_idle(max_vtime=min(30.0, max(0.001, deadline - loop.time())))
            if status == "idle" or self.stall is not None:
                return status
            if loop.time() >= deadline:
                return "deadline"

    # ------------------------------------------------------------------
    def _do(self, n: int, op: dict) -> None:
        kind = op.get("op")
        if kind == "create":
            side = op["side"] % 2
            neg = op.get("neg_id")
            if op.get("reuse") is not None and self.channels:
                # take the id of an earlier channel (meant for channels that have been closed)
                old = self.channels[op["reuse"] % len(self.channels)]
                oid = next((o.id for o in old.objs.values() if o.id is not None), None)
                op = dict(op, id=oid, reused_from=old.idx)
            params = RTCDataChannelParameters(
                label=op.get("label", ""), protocol=op.get("protocol", ""), ordered=bool(op.get("ordered", True)),
                maxRetransmits=op.get("mr"), maxPacketLifeTime=op.get("mlt"),
                negotiated=neg is not None, id=neg if neg is not None else op.get("id"))
            rec = ChannelRec(idx=len(self.channels), creator=side, params=dict(op), created_at_op=n)
            ch = RTCDataChannel(self.sctp[side], params)  # may raise ValueError (id in use): then there is no channel
            self.channels.append(rec)
            self._attach(rec, side, ch)
            if neg is not None:
                ch2 = RTCDataChannel(self.sctp[1 - side], RTCDataChannelParameters(
                    label=op.get("label", ""), protocol=op.get("protocol", ""), ordered=bool(op.get("ordered", True)),
                    maxRetransmits=op.get("mr"), maxPacketLifeTime=op.get("mlt"), negotiated=True, id=neg))
                self._attach(rec, 1 - side, ch2)
        elif kind == "send":
            if not self.channels:
                return
            rec = self.channels[op["ch"] % len(self.channels)]
            side = op["side"] % 2
            ch = rec.objs.get(side)
            if ch is None or ch.readyState != "open":
                self.skipped_sends += 1
                return
            value = make_value(rec.idx, side, len(rec.sent[side]), op.get("kind", "bytes"), op.get("len", 1), op.get("fill", 0))
            if isinstance(op.get("special"), int):
                # payloads that look like protocol artefacts: a lone NUL (what an empty message is carried as), ...
                value = SPECIAL_VALUES[op["special"] % len(SPECIAL_VALUES)]
                value = value if op.get("kind") != "str" else value.decode("latin-1")
            rec.sent[side].append(value)
            try:
                ch.send(value)
            except Exception:
                rec.sent[side].pop()
                raise
        elif kind == "close":
            if not self.channels:
                return
            rec = self.channels[op["ch"] % len(self.channels)]
            ch = rec.objs.get(op["side"] % 2)
            if ch is not None:
                ch.close()
        elif kind == "thr":
            if not self.channels:
                return
            rec = self.channels[op["ch"] % len(self.channels)]
            ch = rec.objs.get(op["side"] % 2)
            if ch is not None:
                ch.bufferedAmountLowThreshold = op["value"]
        elif kind == "faults":
            if self.link is not None:
                self.link.paused = not op.get("on", True)
        elif self.extra_op is not None and isinstance(kind, str) and kind:
            self.extra_op(n, op)

    # ------------------------------------------------------------------
    def quiescent_report(self) -> dict:
        rep = {"states": [t.state for t in self.sctp], "assoc": [t._association_state.name for t in self.sctp],
               "sent_queue": [len(t._sent_queue) for t in self.sctp], "outbound_queue": [len(t._outbound_queue) for t in self.sctp],
               "dc_queue": [len(t._data_channel_queue) for t in self.sctp], "flight": [t._flight_size for t in self.sctp],
               "cwnd": [t._cwnd for t in self.sctp], "t3": [t._t3_handle is not None for t in self.sctp]}
        return rep


def _short(v: Any) -> str:
    r = repr(v)
    return r if len(r) <= 60 else r[:40] + f"...({len(v)} {'chars' if isinstance(v, str) else 'bytes'})"
