"""Virtual-time asyncio event loop (DESIGN.md section 1.1).

* ``time()`` is a virtual clock.  The selector never blocks: it polls the real
  file descriptors with timeout 0 and, when nothing is ready, advances the
  virtual clock by the time-out asyncio computed for the next timer.
* When asyncio asks for an unbounded wait the loop is *idle*; a harness
  coroutine waiting in ``until_idle()`` is resumed, otherwise the run is aborted
  with ``SimDeadlock`` (harness error).
* Every loop iteration and every handle execution is counted; an iteration
  budget turns a livelock into ``StepBudgetExceeded`` instead of a hung check.
* A CPU-time watchdog (ITIMER_PROF) turns a non-yielding busy loop in the code
  under test into ``CpuBudgetExceeded``.
"""

from __future__ import annotations

import asyncio
import selectors
import signal
import threading
from contextlib import contextmanager
from typing import Any, Callable, Optional

EPOCH = 1_700_000_000.0  # what the patched time.time() returns at virtual time 0


class SimAbort(BaseException):
    """Base of the exceptions that end a simulated case from the outside."""


class SimDeadlock(SimAbort):
    pass


class StepBudgetExceeded(SimAbort):
    pass


class CpuBudgetExceeded(SimAbort):
    pass


class _VSelector:
    """Wraps the real selector; never blocks; owns virtual time."""

    def __init__(self, real: selectors.BaseSelector, loop: "VLoop") -> None:
        self._real = real
        self._loop = loop

    def __getattr__(self, name: str) -> Any:
        return getattr(self._real, name)

    def select(self, timeout: Optional[float] = None):  # type: ignore[no-untyped-def]
        loop = self._loop
        loop.iterations += 1
        if loop._cpu_tripped:
            raise CpuBudgetExceeded("cpu budget exceeded")
        if loop.max_iterations is not None and loop.iterations > loop.max_iterations:
            raise StepBudgetExceeded(f"more than {loop.max_iterations} loop iterations")
        events = self._real.select(0)
        if events:
            return events
        waiter = loop._idle_waiter
        if timeout is None:
            # nothing ready, no timer: the loop is idle
            if waiter is None or waiter.done():
                raise SimDeadlock("event loop idle and nobody waits for idleness")
            loop._idle_waiter = None
            waiter.set_result("idle")
            return events
        if timeout > 0:
            deadline = loop._idle_deadline
            if (
                waiter is not None
                and not waiter.done()
                and deadline is not None
                and loop._vtime + timeout >= deadline
            ):
                loop._vtime = max(loop._vtime, deadline)
                loop._idle_waiter = None
                loop._idle_deadline = None
                waiter.set_result("deadline")
                return events
            loop._vtime += timeout
        return events


class VLoop(asyncio.SelectorEventLoop):
    def __init__(self) -> None:
        super().__init__(selectors.DefaultSelector())
        self._vtime = 0.0
        self._selector = _VSelector(self._selector, self)  # type: ignore[assignment]
        self.iterations = 0
        self.handles_run = 0
        self.max_iterations: Optional[int] = None
        self._idle_waiter: Optional[asyncio.Future] = None
        self._idle_deadline: Optional[float] = None
        self._cpu_tripped = False
        # optional hook called before every handle (C19 interruption points)
        self.before_handle: Optional[Callable[[int], None]] = None
        self.logged_errors: list[dict] = []
        self.set_exception_handler(self._record_exception)

    # -- clock -------------------------------------------------------------
    def time(self) -> float:
        return self._vtime

    def wall(self) -> float:
        """What a patched ``time.time()`` returns."""
        return EPOCH + self._vtime

    # -- handle counting -----------------------------------------------------
    def _wrap(self, callback: Callable[..., Any]) -> Callable[..., Any]:
        loop = self

        def counted(*args: Any) -> Any:
            loop.handles_run += 1
            hook = loop.before_handle
            if hook is not None:
                hook(loop.handles_run)
            return callback(*args)

        counted.__wrapped__ = callback  # type: ignore[attr-defined]
        try:  # keep error reports of the loop readable
            name = getattr(callback, "__qualname__", None) or getattr(callback, "__name__", None) or repr(callback)
            owner = getattr(callback, "__self__", None)
            if owner is not None:
                name = f"{type(owner).__name__}.{getattr(callback, '__name__', name)}"
            counted.__qualname__ = counted.__name__ = "counted<" + str(name) + ">"
        except Exception:
            pass
        return counted

    def _call_soon(self, callback, args, context):  # type: ignore[no-untyped-def]
        return super()._call_soon(self._wrap(callback), args, context)

    def call_at(self, when, callback, *args, context=None):  # type: ignore[no-untyped-def]
        return super().call_at(when, self._wrap(callback), *args, context=context)

    # -- idle detection ------------------------------------------------------
    async def until_idle(self, max_vtime: Optional[float] = None) -> str:
        """Suspend until the loop has nothing left to do ("idle") or virtual
        time reaches now+max_vtime ("deadline")."""
        assert self._idle_waiter is None
        fut = self.create_future()
        self._idle_waiter = fut
        self._idle_deadline = None if max_vtime is None else self._vtime + max_vtime
        try:
            return await fut
        finally:
            if self._idle_waiter is fut:
                self._idle_waiter = None

    # -- error capture -------------------------------------------------------
    def _record_exception(self, loop: asyncio.AbstractEventLoop, context: dict) -> None:
        exc = context.get("exception")
        self.logged_errors.append(
            {
                "message": context.get("message"),
                "exception": repr(exc) if exc is not None else None,
                "exc_obj": exc,
            }
        )


@contextmanager
def cpu_watchdog(loop: Optional[VLoop], seconds: float):
    """Raise CpuBudgetExceeded in the main thread after `seconds` of process
    CPU time.  Only usable from the main thread of a process."""
    if threading.current_thread() is not threading.main_thread():
        yield
        return

    def on_prof(signum, frame):  # type: ignore[no-untyped-def]
        if loop is not None:
            loop._cpu_tripped = True
        raise CpuBudgetExceeded(f"more than {seconds}s of CPU time")

    old = signal.signal(signal.SIGPROF, on_prof)
    signal.setitimer(signal.ITIMER_PROF, seconds)
    try:
        yield
    finally:
        signal.setitimer(signal.ITIMER_PROF, 0)
        signal.signal(signal.SIGPROF, old)


def run_sim(
    main: Callable[[VLoop], Any],
    *,
    max_iterations: int = 2_000_000,
    cpu_seconds: float = 60.0,
) -> Any:
    """Run coroutine factory `main(loop)` to completion on a fresh VLoop."""
    loop = VLoop()
    loop.max_iterations = max_iterations
    asyncio.set_event_loop(loop)
    try:
        with cpu_watchdog(loop, cpu_seconds):
            return loop.run_until_complete(main(loop))
    finally:
        _shutdown(loop)


def _shutdown(loop: VLoop) -> None:
    loop.max_iterations = None
    loop._cpu_tripped = False
    loop.before_handle = None
    try:
        pending = [t for t in asyncio.all_tasks(loop) if not t.done()]
        for t in pending:
            t.cancel()
        if pending:

            async def _drain() -> None:
                await asyncio.gather(*pending, return_exceptions=True)

            try:
                loop.max_iterations = loop.iterations + 20000
                loop.run_until_complete(_drain())
            except BaseException:
                pass
    finally:
        try:
            loop.close()
        except BaseException:
            pass
        asyncio.set_event_loop(None)
