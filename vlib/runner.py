"""Common runner: seeds, shards, replay tiers, known findings, evidence and the
VIOLATION / KNOWN-FINDING exit protocol (DESIGN.md sections 1.3 - 1.7)."""

from __future__ import annotations

import argparse
import hashlib
import importlib
import json
import multiprocessing as mp
import os
import sys
import time
import traceback
from dataclasses import dataclass, field
from pathlib import Path
from typing import Any, Callable, Iterable, Optional

ROOT = Path(__file__).resolve().parent.parent
KNOWN_FILE = ROOT / "KNOWN_FINDINGS.txt"

MODULES = {
    "C01": "checks.c01_reliable",
    "C02": "checks.c02_drain",
    "C03": "checks.c03_negotiation",
    "C04": "checks.c04_dtls",
    "C05": "checks.c05_robust",
    "C06": "checks.c06_partial",
    "C07": "checks.c07_rtp",
    "C08": "checks.c08_sctp_codec",
    "C09": "checks.c09_sdp",
    "C10": "checks.c10_jitter",
    "C11": "checks.c11_video",
    "C12": "checks.c12_router",
    "C13": "checks.c13_lifecycle",
    "C14": "checks.c14_jsep",
    "C15": "checks.c15_bwe",
    "C16": "checks.c16_packetise",
    "C17": "checks.c17_wrap",
    "C18": "checks.c18_rr",
    "C19": "checks.c19_close",
}


# --------------------------------------------------------------------------
# data model


@dataclass
class Outcome:
    violation: Optional[str] = None  # human readable; None = property held
    kind: Optional[str] = None  # short stable key of the failure shape
    nontrivial: bool = False
    classes: tuple = ()
    inconclusive: bool = False
    info: dict = field(default_factory=dict)  # extra facts for recognisers


@dataclass
class Family:
    name: str
    run: Callable[[Any], Outcome]
    strategy: Optional[Callable[[str], Any]] = None  # tier -> hypothesis strategy of cases
    quick: int = 0  # number of generated cases per tier
    thorough: int = 0
    enumerate: Optional[Callable[[str], Iterable[Any]]] = None  # tier -> finite list of cases
    exhaustive_note: Optional[str] = None  # names the finite domain when enumerate covers it
    min_shard: int = 25  # do not split below this many cases per worker
    custom: Optional[Callable[[str, int, int, int], "Stats"]] = None  # (tier, seed, shard, nshards)
    custom_shards: Optional[Callable[[str], int]] = None
    thorough_only: bool = False


@dataclass
class Check:
    prop: str
    level: str
    rule: str
    families: list
    floor: int = 2  # minimum distinct non-trivial cases, below = vacuous (exit 2)
    recognisers: dict = field(default_factory=dict)  # key -> fn(family, case, outcome) -> bool
    assumptions: list = field(default_factory=list)


class Stats:
    def __init__(self) -> None:
        self.evaluations = 0
        self.nontrivial: set = set()
        self.classes: dict = {}
        self.samples: list = []
        self.violations: list = []  # (family, case, message, kind)
        self.excluded_known: dict = {}
        self.inconclusive = 0
        self.errors: list = []
        self.per_family: dict = {}
        self.exhaustive: list = []
        self.violation_counts: dict = {}

    def merge(self, other: "Stats") -> None:
        self.evaluations += other.evaluations
        self.nontrivial |= other.nontrivial
        for k, v in other.classes.items():
            self.classes[k] = self.classes.get(k, 0) + v
        self.samples.extend(other.samples)
        self.violations.extend(other.violations)
        for k, v in other.excluded_known.items():
            self.excluded_known[k] = self.excluded_known.get(k, 0) + v
        self.inconclusive += other.inconclusive
        self.errors.extend(other.errors)
        for k, v in other.per_family.items():
            d = self.per_family.setdefault(k, {"evaluations": 0, "nontrivial": 0})
            d["evaluations"] += v["evaluations"]
            d["nontrivial"] += v["nontrivial"]
        self.exhaustive.extend(other.exhaustive)
        for k, v in other.violation_counts.items():
            self.violation_counts[k] = self.violation_counts.get(k, 0) + v


def digest(case: Any) -> str:
    return hashlib.sha1(
        json.dumps(case, sort_keys=True, separators=(",", ":"), default=str).encode()
    ).hexdigest()


def truncate(case: Any, limit: int = 1500) -> Any:
    text = json.dumps(case, sort_keys=True, default=str)
    if len(text) <= limit:
        return case
    return {"truncated_json": text[:limit] + "...", "full_length": len(text)}


# --------------------------------------------------------------------------
# known findings


def load_known(prop: str) -> tuple:
    findings, fixed = [], []
    if KNOWN_FILE.exists():
        for line in KNOWN_FILE.read_text().splitlines():
            line = line.strip()
            if not line or line.startswith("#"):
                continue
            head, _, rest = line.partition(" ")
            fields = rest.split()
            if not fields or fields[0] != f"property={prop}":
                continue
            if head == "finding:":
                key = None
                words = []
                for w in fields[1:]:
                    if w.startswith("key=") and key is None:
                        key = w[4:]
                    else:
                        words.append(w)
                findings.append({"key": key, "text": " ".join(words)})
            elif head == "fixed:":
                fixed.append(rest)
    return findings, fixed


# --------------------------------------------------------------------------
# executing one case


def run_one(check: Check, fam: Family, case: Any) -> Outcome:
    from .vloop import CpuBudgetExceeded, cpu_watchdog

    try:
        with cpu_watchdog(None, 120.0):
            out = fam.run(case)
    except CpuBudgetExceeded:
        out = Outcome(violation="case exceeded 120 s of CPU time (hang)", kind="cpu-budget")
    return out


def match_known(check: Check, active: list, fam: Family, case: Any, out: Outcome) -> Optional[str]:
    for key in active:
        rec = check.recognisers.get(key)
        if rec is None:
            continue
        try:
            if rec(fam.name, case, out):
                return key
        except Exception:
            continue
    return None


def _record(stats: Stats, check: Check, active: list, fam: Family, case: Any, out: Outcome,
            want_samples: bool) -> None:
    stats.evaluations += 1
    pf = stats.per_family.setdefault(fam.name, {"evaluations": 0, "nontrivial": 0})
    pf["evaluations"] += 1
    if out.inconclusive:
        stats.inconclusive += 1
    for c in out.classes:
        key = f"{fam.name}:{c}"
        stats.classes[key] = stats.classes.get(key, 0) + 1
    if out.nontrivial:
        d = digest(case)
        if d not in stats.nontrivial:
            stats.nontrivial.add(d)
            pf["nontrivial"] += 1
            if want_samples and sum(1 for s in stats.samples if s["family"] == fam.name) < 3:
                stats.samples.append({"family": fam.name, "case": truncate(case)})
    if out.violation is not None:
        key = match_known(check, active, fam, case, out)
        if key is not None:
            stats.excluded_known[key] = stats.excluded_known.get(key, 0) + 1
        else:
            # keep a few per failure shape so that one shallow defect does not hide the others
            kind = out.kind or "violation"
            ck = f"{fam.name}/{kind}"
            stats.violation_counts[ck] = stats.violation_counts.get(ck, 0) + 1
            same = sum(1 for v in stats.violations if v[0] == fam.name and v[3] == kind)
            if same < 3 and len(stats.violations) < 90:
                stats.violations.append((fam.name, case, out.violation, kind))


def _seed_for(seed: int, prop: str, family: str, shard: int) -> int:
    h = hashlib.sha1(f"{seed}/{prop}/{family}/{shard}".encode()).digest()
    return int.from_bytes(h[:8], "big")


def _worker(args: tuple) -> Stats:
    prop, fam_name, tier, seed, shard, nshards, n, active = args
    stats = Stats()
    try:
        check = load_check(prop)
        fam = next(f for f in check.families if f.name == fam_name)
        if fam.custom is not None:
            return fam.custom(tier, seed, shard, nshards)
        if fam.enumerate is not None and n == -1:
            for i, case in enumerate(fam.enumerate(tier)):
                if i % nshards != shard:
                    continue
                out = run_one(check, fam, case)
                _record(stats, check, active, fam, case, out, shard == 0)
            return stats

        import hypothesis
        from hypothesis import HealthCheck, Phase, given, settings

        @hypothesis.seed(_seed_for(seed, prop, fam_name, shard))
        @settings(
            max_examples=n,
            database=None,
            deadline=None,
            derandomize=False,
            report_multiple_bugs=False,
            suppress_health_check=list(HealthCheck),
            phases=[Phase.generate],
            verbosity=hypothesis.Verbosity.quiet,
        )
        @given(fam.strategy(tier))
        def prop_test(case: Any) -> None:
            out = run_one(check, fam, case)
            _record(stats, check, active, fam, case, out, shard == 0)

        prop_test()
    except BaseException as exc:  # harness error
        stats.errors.append(
            f"{fam_name}[{shard}]: {type(exc).__name__}: {exc}\n{traceback.format_exc()[-3000:]}"
        )
    return stats


def load_check(prop: str) -> Check:
    mod = importlib.import_module(MODULES[prop])
    return mod.CHECK


# --------------------------------------------------------------------------
# main entry


def _replay_file(check: Check, path: Path) -> tuple:
    doc = json.loads(path.read_text())
    fam = next(f for f in check.families if f.name == doc["family"])
    out = run_one(check, fam, doc["case"])
    return fam, doc["case"], out


def _write_replay(prop: str, fam: str, case: Any, message: str, kind: str) -> Path:
    outdir = Path(os.environ.get("VERIF_OUT_DIR", ROOT / "replays" / "out")) / prop
    outdir.mkdir(parents=True, exist_ok=True)
    path = outdir / f"{digest(case)[:16]}.json"
    path.write_text(
        json.dumps(
            {"property": prop, "family": fam, "kind": kind, "message": message, "case": case},
            indent=1,
            sort_keys=True,
            default=str,
        )
    )
    return path


def main(argv: Optional[list] = None) -> int:
    ap = argparse.ArgumentParser()
    ap.add_argument("prop")
    ap.add_argument("--tier", default=os.environ.get("VERIF_TIER", "quick"),
                    choices=["quick", "thorough"])
    ap.add_argument("--replay")
    ap.add_argument("--family", action="append")
    ap.add_argument("--scale", type=float, default=float(os.environ.get("VERIF_SCALE", "1")))
    ap.add_argument("--jobs", type=int, default=int(os.environ.get("VERIF_JOBS", "0")))
    ap.add_argument("--no-min", action="store_true")
    args = ap.parse_args(argv)

    prop = args.prop.upper()
    try:
        seed = int(os.environ.get("VERIF_SEED", "1"))
    except ValueError:
        seed = 1
    t0 = time.time()
    try:
        check = load_check(prop)
    except BaseException:
        traceback.print_exc()
        print(f"HARNESS-ERROR property={prop} cannot import check")
        return 2

    # ---- single replay -----------------------------------------------------
    if args.replay:
        fam, case, out = _replay_file(check, Path(args.replay))
        if out.violation is not None:
            print(f"replay: {out.kind}: {out.violation}")
            findings, _ = load_known(prop)
            for f in findings:
                rec = check.recognisers.get(f["key"])
                if rec is not None and rec(fam.name, case, out):
                    print(f"KNOWN-FINDING: property={prop} {f['text']}")
                    return 0
            print(f"VIOLATION property={prop} replay={args.replay}")
            return 1
        print(f"replay holds ({fam.name}); classes={list(out.classes)}")
        return 0

    jobs = args.jobs or min(16, os.cpu_count() or 1)
    findings, _fixed = load_known(prop)

    # ---- known findings: canonical replays ---------------------------------
    active: list = []
    for f in findings:
        key = f["key"]
        path = ROOT / "replays" / "known" / prop / f"{key}.json"
        still = False
        if path.exists():
            try:
                _, _, out = _replay_file(check, path)
                still = out.violation is not None
            except BaseException:
                traceback.print_exc()
                print(f"HARNESS-ERROR property={prop} known replay {path} crashed")
                return 2
        if still:
            print(f"KNOWN-FINDING: property={prop} {f['text']}")
            active.append(key)

    total = Stats()
    # ---- regression replays (seconds-long tier) ----------------------------
    regress_dir = ROOT / "replays" / "regress" / prop
    n_regress = 0
    if regress_dir.is_dir() and not os.environ.get("VERIF_SKIP_REGRESS"):  # (the switch is for sensitivity experiments only)
        for path in sorted(regress_dir.glob("*.json")):
            try:
                fam, case, out = _replay_file(check, path)
            except BaseException:
                traceback.print_exc()
                print(f"HARNESS-ERROR property={prop} regress replay {path} crashed")
                return 2
            n_regress += 1
            _record(total, check, active, fam, case, out, False)
            if total.violations:
                name, case, msg, kind = total.violations[0]
                print(f"regression replay fails: {kind}: {msg}")
                print(f"VIOLATION property={prop} replay={path}")
                _write_evidence(check, args.tier, seed, total, t0, n_regress, 1)
                return 1

    # ---- generation ----------------------------------------------------------
    tasks = []
    for fam in check.families:
        if args.family and fam.name not in args.family:
            continue
        if fam.thorough_only and args.tier != "thorough":
            continue
        if fam.custom is not None:
            ns = fam.custom_shards(args.tier) if fam.custom_shards else 1
            for s in range(ns):
                tasks.append((prop, fam.name, args.tier, seed, s, ns, 0, active))
            continue
        if fam.enumerate is not None:
            ns = jobs
            for s in range(ns):
                tasks.append((prop, fam.name, args.tier, seed, s, ns, -1, active))
            if fam.exhaustive_note:
                total.exhaustive.append(f"{fam.name}: {fam.exhaustive_note}")
        if fam.strategy is not None:
            n = int((fam.quick if args.tier == "quick" else fam.thorough) * args.scale)
            if n <= 0:
                continue
            ns = max(1, min(jobs, n // max(1, fam.min_shard)))
            per = -(-n // ns)
            for s in range(ns):
                tasks.append((prop, fam.name, args.tier, seed, s, ns, per, active))

    # longest families first is unknown; interleave to balance
    if tasks:
        if jobs == 1:
            results = [_worker(t) for t in tasks]
        else:
            ctx = mp.get_context("fork")
            with ctx.Pool(min(jobs, len(tasks)), maxtasksperchild=None) as pool:
                results = pool.map(_worker, tasks, chunksize=1)
        for r in results:
            total.merge(r)

    if total.errors:
        for e in total.errors[:5]:
            print(e)
        print(f"HARNESS-ERROR property={prop} ({len(total.errors)} worker errors)")
        _write_evidence(check, args.tier, seed, total, t0, n_regress, 0)
        return 2

    # ---- violations ------------------------------------------------------------
    rc = 0
    if total.violations:
        by_kind: dict = {}
        for name, case, msg, kind in total.violations:
            cur = by_kind.get((name, kind))
            size = len(json.dumps(case, default=str))
            if cur is None or size < cur[0]:
                by_kind[(name, kind)] = (size, name, case, msg, kind)
        for (_size, name, case, msg, kind) in list(by_kind.values())[:12]:
            fam = next(f for f in check.families if f.name == name)
            if not args.no_min:
                from .ddmin import minimise

                def still(c: Any, fam: Family = fam, kind: str = kind) -> bool:
                    o = run_one(check, fam, c)
                    return (
                        o.violation is not None
                        and (o.kind or "violation") == kind
                        and match_known(check, active, fam, c, o) is None
                    )

                small = minimise(case, still, 300 if args.tier == "quick" else 1500)
                o2 = run_one(check, fam, small)
                if o2.violation is not None:
                    case, msg = small, o2.violation
            path = _write_replay(prop, name, case, msg, kind)
            print(f"violation[{name}/{kind}]: {msg[:600]}")
            print(f"VIOLATION property={prop} replay={path}")
        rc = 1

    n_nt = len(total.nontrivial)
    _write_evidence(check, args.tier, seed, total, t0, n_regress, len(total.violations))
    if rc == 0 and n_nt < check.floor and not args.family:
        print(f"HARNESS-ERROR property={prop} vacuous run: {n_nt} non-trivial cases < floor {check.floor}")
        return 2
    if rc == 0:
        print(
            f"OK property={prop} tier={args.tier} seed={seed} evaluations={total.evaluations} "
            f"nontrivial={n_nt} inconclusive={total.inconclusive} "
            f"excluded_known={sum(total.excluded_known.values())} wall={time.time() - t0:.1f}s"
        )
    return rc


def _write_evidence(check: Check, tier: str, seed: int, total: Stats, t0: float,
                    n_regress: int, n_viol: int) -> None:
    ev = {
        "property_id": check.prop,
        "tier": tier,
        "seed": seed,
        "level": check.level,
        "coverage": {
            "evaluations": total.evaluations,
            "distinct_nontrivial": len(total.nontrivial),
            "rule": check.rule,
            "samples": total.samples[:12],
            "classes": dict(sorted(total.classes.items())),
            "families": total.per_family,
            "excluded_known": total.excluded_known,
            "inconclusive": total.inconclusive,
            "regression_replays": n_regress,
            "violating_cases_by_kind": total.violation_counts,
        },
        "assumptions": check.assumptions,
        "wall_s": round(time.time() - t0, 2),
        "violations": n_viol,
    }
    if total.exhaustive:
        ev["coverage"]["exhaustive_subdomains"] = total.exhaustive
    d = Path(os.environ.get("VERIF_EVIDENCE_DIR", ROOT / "evidence"))
    d.mkdir(exist_ok=True)
    (d / f"{check.prop}.json").write_text(json.dumps(ev, indent=1, default=str) + "\n")


if __name__ == "__main__":
    sys.exit(main())
