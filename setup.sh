#!/bin/sh
# Offline set-up: third-party tooling goes to /verif/.deps (never into /repo or /venv).
set -e
cd "$(dirname "$0")"
if [ ! -d .deps/hypothesis ] || [ ! -d .deps/atheris ]; then
  rm -rf .deps
  PIP_NO_INDEX=1 /venv/bin/python -m pip install --quiet --no-index \
      --find-links /opt/veriftools/wheels --target .deps \
      hypothesis atheris >/dev/null 2>&1 || \
  PIP_NO_INDEX=1 /venv/bin/python -m pip install --quiet --no-index \
      --find-links /opt/veriftools/wheels --target .deps hypothesis
fi
PYTHONPATH=/verif/.deps /venv/bin/python -c "import hypothesis; print('hypothesis', hypothesis.__version__)"
PYTHONPATH=/verif/.deps /venv/bin/python -c "import atheris; print('atheris ok')" || echo "atheris unavailable (fuzz families will be skipped)"
/venv/bin/python -c "import aiortc; print('aiortc from', aiortc.__file__)"
