"""C02 - data channel traffic always drains: bounded liveness under a clock the
harness owns (DESIGN.md section 2/C02)."""

from __future__ import annotations

from checks.sctp_common import base_problems, drain_verdict, session_classes
from vlib.runner import Check, Family, Outcome
from vlib.sctpsim import Session
from vlib.strategies import bundling, rto_window_case, session_case, yielding


def run_session(case: dict) -> Outcome:
    s = Session(case).run()
    classes = session_classes(s)
    burst = False
    # a burst larger than the initial congestion window (3600 bytes) at one instant
    run = 0
    for op in case.get("ops", []):
        if op.get("op") == "send" and op.get("dt", 0) == 0:
            run += op.get("len", 0)
            burst = burst or run > 3600
        elif op.get("op") == "send":
            run = op.get("len", 0)
    if burst:
        classes.add("burst>cwnd")
    nt = "t3" in classes and burst
    bp = base_problems(s)
    if bp:
        return Outcome(bp[1], bp[0], nt, tuple(sorted(classes)))
    if s.problems:
        kind, msg = s.problems[0]
        return Outcome(msg, "transcript-" + kind, nt, tuple(sorted(classes)))
    v = drain_verdict(s)
    if v and v[0] == "not-established":
        return Outcome(None, None, False, tuple(sorted(classes | {"not-established"})))
    if v and v[0] == "inconclusive":
        return Outcome(None, None, nt, tuple(sorted(classes | {"inconclusive"})), inconclusive=True)
    if v:
        return Outcome(v[1], v[0], nt, tuple(sorted(classes)))
    return Outcome(None, None, nt, tuple(sorted(classes)))


CHECK = Check(
    prop="C02",
    level="exploration",
    rule=(
        "Session cases as C01 biased to stalls: bursts of 4-14 messages of 1200-5000 bytes at one instant (several times the "
        "3600-byte initial cwnd), traffic in both directions, fate lists with loss bursts (T3), isolated losses followed by "
        "deliveries (three-miss fast retransmit), lost/reordered/duplicated SACKs. The fate lists are finite and the link is "
        "healed after the program, so every case ends in a fault-free suffix. Oracle (bounded liveness, virtual clock): the "
        "loop must reach idle with _sent_queue/_outbound_queue/_data_channel_queue empty, bufferedAmount 0, both sides "
        "connected and every reliable message delivered; idle with work outstanding = deadlock, five T3 expiries without "
        "progress in the suffix = livelock; horizon reached while progressing = inconclusive. Non-trivial = a T3 expiry "
        "happened and a burst exceeded the congestion window."
        " Family rto-window: warm-up, then 2-6 chunks whose transmissions and retransmissions are lost / delivered / delayed by about one RTO. Families yielding-send / bundling as in C01."
    ),
    families=[
        Family("sessions", run_session,
               lambda tier: session_case(tier, reliable_only=True, max_sends=30 if tier == "quick" else 60, loss_bias=True, burst_bias=True, warmup=True),
               quick=6000, thorough=100000, min_shard=20),
        Family("rto-window", run_session, rto_window_case, quick=15000, thorough=100000, min_shard=20),
        # the same space over a transport whose send suspends (a TURN relay binding or refreshing a channel)
        Family("yielding-send", run_session,
               lambda tier: yielding(session_case(tier, reliable_only=True, max_sends=30 if tier == "quick" else 60, loss_bias=True, burst_bias=True, warmup=True)),
               quick=2000, thorough=40000, min_shard=20),
        Family("bundling", run_session,
               lambda tier: bundling(session_case(tier, reliable_only=True, max_sends=30 if tier == "quick" else 60, loss_bias=True, burst_bias=True, warmup=True)),
               quick=1500, thorough=40000, min_shard=20),
    ],
    floor=200,
    assumptions=["liveness is decided as bounded liveness under the virtual clock (horizon 900 s after healing)",
                 "DTLS is a pass-through fake; a suspending send is modelled as a per-datagram pattern of 0 / one loop turn / 1 ms..1.2 s"],
)
