"""C11 - video frames reach the decoder unspliced; lost packets are recovered by
NACK/RTX (DESIGN.md section 2/C11).  A real RTCRtpSender and RTCRtpReceiver on
a connected pair of real RTCDtlsTransport objects; per-datagram fates on the
media and feedback directions; the decoder thread is replaced by a tap."""

from __future__ import annotations

import asyncio
import fractions
import queue

import av
from hypothesis import strategies as st

import aiortc.rtcdtlstransport as D
import aiortc.rtcrtpreceiver as RX
import aiortc.rtcrtpsender as TX
from aiortc import rtp as R
from aiortc.codecs import depayload
from aiortc.mediastreams import MediaStreamError, MediaStreamTrack
from aiortc.rtcrtpparameters import (RTCRtcpParameters, RTCRtpCodecParameters, RTCRtpDecodingParameters, RTCRtpReceiveParameters,
                                     RTCRtpRtxParameters, RTCRtpSendParameters)
from checks.c04_dtls import certs
from vlib import vloop
from vlib.patches import RandomShim, counter_from, patched, virtual_clocks
from vlib.runner import Check, Family, Outcome

PT_MEDIA, PT_RTX = 100, 101
FRAME_INTERVAL = 0.033
FLUSH_FRAMES = 40
LATENCY = 0.004


# --------------------------------------------------------------------------
# generation


@st.composite
def fate(draw, recovery: bool):
    k = draw(st.sampled_from(["ok"] * 6 + ["drop", "drop", "dup", "late"]))
    if k == "ok":
        return ["d", 0]
    if k == "drop":
        return ["x"]
    if k == "dup":
        return ["2", 0, draw(st.sampled_from([0, 5, 20, 60]))]
    return ["d", draw(st.sampled_from([5, 20, 40] if recovery else [5, 20, 40, 150, 600]))]


@st.composite
def media_fates(draw, recovery: bool, n: int):
    out = []
    while len(out) < n:
        seg = draw(st.sampled_from(["ok", "ok", "mix", "burst", "single"]))
        if seg == "ok":
            out += [["d", 0]] * draw(st.integers(3, 25))
        elif seg == "burst":
            out += [["x"]] * draw(st.integers(2, 20 if recovery else 140))
            out += [["d", 0]] * 2
        elif seg == "single":
            out += [["x"], ["d", 0], ["d", 0]]
        else:
            out += draw(st.lists(fate(recovery), min_size=1, max_size=12))
    return out[:n]


@st.composite
def video_case(draw, tier="quick", recovery=False):
    nframes = draw(st.integers(10, 40 if tier == "quick" else 80))
    sizes = [draw(st.sampled_from([1, 1, 2, 3, 5, 8])) for _ in range(nframes)]  # packets per frame
    total = sum(sizes)
    return {"codec": draw(st.sampled_from(["VP8", "VP8", "H264"])), "rtx": draw(st.booleans()), "recovery": recovery,
            "seq0": draw(st.sampled_from([0, 1000, 65535 - 3, 65535 - 40, 65535 - total // 2, 32767])),
            # (the RTX stream starts in the lower half of the sequence space, as the library itself arranges: SRTP cannot
            # recover its rollover counter when the packets before a wrap are lost before anything was received)
            "rtxseq0": draw(st.sampled_from([0, 32760])),
            "ts0": draw(st.sampled_from([0, 12345, 2**32 - 3000 * 5, 2**32 - 1])),
            "sizes": sizes, "media": draw(media_fates(recovery, total + 10)),
            "feedback": [] if recovery else draw(st.lists(fate(False), max_size=30)),
            "fill": draw(st.integers(0, 255)),
            # a third of the cases run over a path whose datagram send suspends (TURN relay)
            "yield_send": draw(st.sampled_from([False, False, True]))}


@st.composite
def outage_case(draw, tier="quick"):
    """A long stream with one outage of 90-135 packets - around the jitter buffer's restart threshold (100) and the NACK /
    retransmission window (128) - after which everything is delivered, the retransmissions the receiver asks for included."""
    nframes = draw(st.integers(45, 70 if tier == "quick" else 110))
    sizes = [draw(st.sampled_from([2, 3, 5, 8, 8])) for _ in range(nframes)]
    total = sum(sizes)
    before = draw(st.integers(5, 40))
    outage = draw(st.integers(90, 135))
    media = [["d", 0]] * before + [["x"]] * outage
    # afterwards: delivered, with the odd loss or delay; the list also covers the retransmissions
    tail = draw(st.lists(st.sampled_from([["d", 0]] * 8 + [["x"], ["d", 20]]), min_size=60, max_size=60))
    media += tail + [["d", 0]] * (total + 200)
    case = {"codec": draw(st.sampled_from(["VP8", "H264"])), "rtx": draw(st.booleans()), "recovery": False,
            "seq0": draw(st.sampled_from([0, 1000, 65535 - 40, 65535 - before - outage // 2, 32767])),
            "rtxseq0": draw(st.sampled_from([0, 32760])), "ts0": draw(st.sampled_from([0, 12345, 2**32 - 3000 * 30])),
            "sizes": sizes, "media": media, "feedback": [], "fill": draw(st.integers(0, 255)),
            "yield_send": draw(st.sampled_from([False, False, True]))}
    return case


def frame_bytes(codec: str, index: int, npackets: int, fill: int) -> bytes:
    """Unique content, sized to packetise into exactly `npackets` RTP packets."""
    if codec == "VP8":
        size = 1 + (npackets - 1) * 1290 + (0 if npackets == 1 else 7)  # descriptor leaves ~1297 per packet
        size = max(size, 30)
        head = b"VP8F%06d|" % index
        body = bytes(((index * 31 + fill + i * 7) & 0xFF) for i in range(size - len(head)))
        return head + body
    # H.264: one NAL unit (type 5 on the first frame, 1 afterwards), no start-code patterns inside
    size = max(30, (npackets - 1) * 1290 + 40)
    head = bytes([0x65 if index == 0 else 0x41]) + b"H264%06d|" % index
    body = bytes((((index * 31 + fill + i * 7) & 0x7F) | 0x80) for i in range(size - len(head)))
    return b"\x00\x00\x00\x01" + head + body


class FrameTrack(MediaStreamTrack):
    kind = "video"

    def __init__(self, frames: list) -> None:
        super().__init__()
        self.frames = frames
        self.pos = 0
        self.done = asyncio.Event()

    async def recv(self) -> av.Packet:
        if self.readyState != "live":
            raise MediaStreamError
        await asyncio.sleep(FRAME_INTERVAL)
        if self.pos >= len(self.frames):
            self.done.set()
            await asyncio.sleep(3600)
            raise MediaStreamError
        pkt = av.Packet(self.frames[self.pos])
        pkt.pts = self.pos * 3000
        pkt.time_base = fractions.Fraction(1, 90000)
        self.pos += 1
        return pkt


class Wire:
    """In-memory ICE pair; fates apply to SRTP/SRTCP datagrams only (never to the DTLS handshake)."""

    def __init__(self, loop, run: "Run") -> None:
        self.loop = loop
        self.run = run

    def make(self):
        a, b = Ice(self, 0), Ice(self, 1)
        a.peer, b.peer = b, a
        return a, b


class Ice:
    def __init__(self, wire: Wire, side: int) -> None:
        self.wire = wire
        self.side = side
        self.role = "controlling" if side == 0 else "controlled"
        self.queue: asyncio.Queue = asyncio.Queue()
        self.peer: "Ice" = None  # type: ignore[assignment]
        self.closed = False

    async def _recv(self) -> bytes:
        data = await self.queue.get()
        if data is None:
            raise ConnectionError
        return data

    def _deliver(self, data: bytes) -> None:
        if not self.peer.closed:
            self.peer.queue.put_nowait(data)

    async def _send(self, data: bytes) -> None:
        if self.closed or self.peer.closed:
            raise ConnectionError
        if self.wire.run.case.get("yield_send"):
            # a relayed path: the send suspends, other coroutines of the endpoint run before the datagram leaves
            await asyncio.sleep(0)
            if self.closed or self.peer.closed:
                raise ConnectionError
        first = data[0]
        if not (127 < first < 192):
            self._deliver(data)
            return
        f = self.wire.run.fate_for(self.side, data)
        loop = self.wire.loop
        if f[0] == "x":
            return
        if f[0] == "2":
            for d in f[1:3]:
                loop.call_later(LATENCY + d / 1000.0, self._deliver, data)
            return
        loop.call_later(LATENCY + (f[1] if len(f) > 1 else 0) / 1000.0, self._deliver, data)

    async def stop(self) -> None:
        if not self.closed:
            self.closed = True
            self.queue.put_nowait(None)


class RecQueue(queue.Queue):
    """The receiver's decoder queue: what is put here is what the decoder would be handed, in loop order."""

    def __init__(self, log: list) -> None:
        super().__init__()
        self.log = log

    def put(self, item, *a, **kw):  # type: ignore[override]
        if item is not None:
            codec, frame = item
            self.log.append(("frame", frame.timestamp, bytes(frame.data)))
        return super().put(item, *a, **kw)


def idle_worker(loop, input_q, output_q):
    while input_q.get() is not None:
        pass


class Run:
    def __init__(self, case: dict) -> None:
        self.case = case
        self.problem = None
        self.classes: set = set()
        self.media_fates = list(case.get("media", []))
        self.fb_fates = list(case.get("feedback", []))
        self.sent: list = []  # first transmissions: dict(seq, ts, payload, lost)
        self.seen_media_seq: set = set()
        self.retransmitted: dict = {}  # media seq -> list of ("rtx"|"verbatim")
        self.log: list = []  # ("frame", ts, data) | ("pli",) | ("nack", [seqs])
        self.received_max = None  # highest media sequence number (unwrapped index) delivered to the receiver so far
        self.rtx_ssrc = None
        self.media_ssrc = None
        self.first_media_done = False
        self.first_ts = None
        self.n_scheduled = 0
        self.restarted_on_old_packet = False

    # the link asks for the fate of one SRTP/SRTCP datagram
    def fate_for(self, side: int, data: bytes):
        if R.is_rtcp(data):
            if side == 1 and self.fb_fates:
                f = self.fb_fates.pop(0)
                return f if isinstance(f, list) and f and f[0] in ("d", "x", "2") and all(isinstance(x, int) for x in f[1:]) else ["d", 0]
            return ["d", 0]
        if side != 0:
            return ["d", 0]
        # media direction: the SRTP header is in the clear
        pt, seq, ssrc = data[1] & 0x7F, int.from_bytes(data[2:4], "big"), int.from_bytes(data[8:12], "big")
        is_retx = (pt == PT_RTX) or ((ssrc, seq) in self.seen_media_seq)
        if pt != PT_RTX:
            self.seen_media_seq.add((ssrc, seq))
        if is_retx and self.case.get("recovery"):
            return ["d", 0]
        if is_retx:
            # retransmissions share the media schedule in the safety family
            pass
        f = self.media_fates.pop(0) if self.media_fates else ["d", 0]
        if not is_retx and self.in_flush(seq):
            f = ["d", 0]
        if not is_retx and not self.first_media_done:
            # the first media packet always arrives: with a start just below the sequence wrap SRTP's rollover counter
            # (libsrtp, trusted) could otherwise never synchronise - a limitation of SRTP, not of the code under test
            self.first_media_done = True
            f = ["d", 0]
        if not (isinstance(f, list) and f and f[0] in ("d", "x", "2") and all(isinstance(x, int) for x in f[1:])):
            f = ["d", 0]
        if not is_retx and self.sent:
            for rec in reversed(self.sent):
                if rec["seq"] == seq:
                    rec["lost"] = f[0] == "x"
                    break
        return f

    async def main(self, loop: vloop.VLoop) -> None:
        case = self.case
        codec_name = case.get("codec", "VP8")
        sizes = [max(1, min(8, int(s))) for s in case.get("sizes", [1]) if isinstance(s, int)] or [1]
        # "while traffic continues": the buffer hands over at most one frame per arriving packet, so the generated part is
        # followed by a run of small frames on a clean network which lets it drain
        self.n_scheduled = len(sizes)
        sizes = sizes + [1] * FLUSH_FRAMES
        frames = [frame_bytes(codec_name, i, n, case.get("fill", 0)) for i, n in enumerate(sizes)]
        wire = Wire(loop, self)
        ia, ib = wire.make()
        cs = certs()
        ta, tb = D.RTCDtlsTransport(ia, [cs[0]]), D.RTCDtlsTransport(ib, [cs[1]])
        pa = D.RTCDtlsParameters(fingerprints=cs[1].getFingerprints())
        pb = D.RTCDtlsParameters(fingerprints=cs[0].getFingerprints())
        await asyncio.wait_for(asyncio.gather(ta.start(pa), tb.start(pb)), 60)
        if ta.state != "connected" or tb.state != "connected":
            self.problem = ("harness-dtls", f"DTLS did not connect: {ta.state}/{tb.state}")
            return
        media = RTCRtpCodecParameters(mimeType="video/" + codec_name, clockRate=90000, payloadType=PT_MEDIA,
                                      parameters={"packetization-mode": "1"} if codec_name == "H264" else {})
        codecs = [media]
        if case.get("rtx"):
            codecs.append(RTCRtpCodecParameters(mimeType="video/rtx", clockRate=90000, payloadType=PT_RTX, parameters={"apt": PT_MEDIA}))
        track = FrameTrack(frames)
        sender = TX.RTCRtpSender(track, ta)
        self.media_ssrc, self.rtx_ssrc = sender._ssrc, sender._rtx_ssrc
        receiver = RX.RTCRtpReceiver("video", tb)
        receiver._track = RX.RemoteStreamTrack(kind="video")
        receiver._set_rtcp_ssrc(0x0BADCAFE)
        receiver._RTCRtpReceiver__decoder_queue = RecQueue(self.log)
        # observed for the known finding: the jitter buffer starting over on a packet of this very stream that arrives 100 or
        # more positions behind what it holds (in this harness the stream never restarts, so every such packet is a late
        # original, a retransmission the receiver asked for, or a duplicate of one)
        jb = receiver._RTCRtpReceiver__jitter_buffer
        orig_jb_add = jb.add

        def jb_add(packet, *a, **kw):
            if jb._origin is not None:
                delta = (packet.sequence_number - jb._origin) & 0xFFFF
                misorder = (jb._origin - packet.sequence_number) & 0xFFFF
                if misorder < delta and misorder >= 100:
                    self.restarted_on_old_packet = True
            return orig_jb_add(packet, *a, **kw)

        jb.add = jb_add  # type: ignore[method-assign]
        # taps on plaintext
        orig_a_send = ta._send_rtp

        async def a_send(data: bytes) -> None:
            if not R.is_rtcp(data):
                p = R.RtpPacket.parse(data)
                if p.payload_type == PT_RTX:
                    osn = int.from_bytes(p.payload[:2], "big")
                    self.retransmitted.setdefault(osn, []).append(("rtx", p.ssrc, p.payload[2:]))
                elif any(r["seq"] == p.sequence_number for r in self.sent[-300:]):
                    self.retransmitted.setdefault(p.sequence_number, []).append(("verbatim", p.ssrc, p.payload))
                else:
                    if self.first_ts is None:
                        self.first_ts = p.timestamp
                    self.sent.append({"seq": p.sequence_number, "ts": p.timestamp, "payload": p.payload, "marker": p.marker, "lost": False,
                                      "idx": len(self.sent), "frame_index": ((p.timestamp - self.first_ts) & 0xFFFFFFFF) // 3000})
            await orig_a_send(data)

        ta._send_rtp = a_send  # type: ignore[method-assign]
        orig_b_send = tb._send_rtp

        async def b_send(data: bytes) -> None:
            if R.is_rtcp(data):
                # the harness reads feedback with its own few lines (RFC 4585), not with the parser under test
                pos = 0
                while pos + 4 <= len(data):
                    fmt, pt, words = data[pos] & 0x1F, data[pos + 1], int.from_bytes(data[pos + 2:pos + 4], "big")
                    body = data[pos + 4:pos + 4 + 4 * words]
                    pos += 4 + 4 * words
                    if pt == 205 and fmt == 1:
                        lost = []
                        for k in range(8, len(body) - 3, 4):
                            pid, blp = int.from_bytes(body[k:k + 2], "big"), int.from_bytes(body[k + 2:k + 4], "big")
                            lost.append(pid)
                            lost += [(pid + i + 1) & 0xFFFF for i in range(16) if blp >> i & 1]
                        self.log.append(("nack", lost, self.received_max))
                    elif pt == 206 and fmt == 1:
                        self.log.append(("pli",))
            await orig_b_send(data)

        tb._send_rtp = b_send  # type: ignore[method-assign]
        orig_b_rtp = tb._handle_rtp_data

        async def b_rtp(data: bytes, arrival_time_ms: int) -> None:
            p = R.RtpPacket.parse(data)
            seq = int.from_bytes(p.payload[:2], "big") if p.payload_type == PT_RTX and len(p.payload) >= 2 else p.sequence_number
            idx = self.unwrap(seq)
            if idx is not None and (self.received_max is None or idx > self.received_max):
                self.received_max = idx
            await orig_b_rtp(data, arrival_time_ms)

        tb._handle_rtp_data = b_rtp  # type: ignore[method-assign]
        enc = [RTCRtpDecodingParameters(ssrc=sender._ssrc, payloadType=PT_MEDIA,
                                        rtx=RTCRtpRtxParameters(ssrc=sender._rtx_ssrc) if case.get("rtx") else None)]
        try:
            await receiver.receive(RTCRtpReceiveParameters(codecs=codecs, encodings=enc, muxId="0"))
            await sender.send(RTCRtpSendParameters(codecs=codecs, muxId="0", rtcp=RTCRtcpParameters(cname="c11", mux=True, ssrc=sender._ssrc)))
            await asyncio.wait_for(track.done.wait(), timeout=FRAME_INTERVAL * len(frames) + 30)
            await asyncio.sleep(3.0)
        finally:
            try:
                await asyncio.wait_for(sender.stop(), 20)
                await asyncio.wait_for(receiver.stop(), 20)
            finally:
                await ta.stop()
                await tb.stop()
                await ia.stop()
                await ib.stop()
                await asyncio.sleep(0.01)
        self.judge(codecs[0], frames)

    def in_flush(self, seq: int) -> bool:
        """The packet belongs to one of the trailing flush frames."""
        for rec in reversed(self.sent[-50:]):
            if rec["seq"] == seq:
                return rec.get("frame_index", 0) >= self.n_scheduled
        return False

    def unwrap(self, seq: int):
        for rec in reversed(self.sent[-400:]):
            if rec["seq"] == seq:
                return rec["idx"]
        return None

    def judge(self, codec, frames: list) -> None:
        case = self.case
        # frames as the sender really packetised them
        by_ts: dict = {}
        order: list = []
        for rec in self.sent:
            if rec["ts"] not in by_ts:
                by_ts[rec["ts"]] = []
                order.append(rec["ts"])
            try:
                piece = depayload(codec, rec["payload"])
            except Exception as exc:
                self.problem = ("harness-depayload", f"sender produced a payload that does not depayload: {exc!r}")
                return
            by_ts[rec["ts"]].append(piece)
        sent_frames = [(ts, by_ts[ts]) for ts in order]
        index_of_ts = {ts: i for i, ts in enumerate(order)}
        if len(sent_frames) != len(frames):
            self.problem = ("harness-frames", f"sender packetised {len(sent_frames)} frames, the track yielded {len(frames)}")
            return
        if any(r["lost"] for r in self.sent):
            self.classes.add("loss")
        if case.get("rtx"):
            self.classes.add("rtx")
        if case.get("yield_send"):
            self.classes.add("yielding-send")
        seqs = [r["seq"] for r in self.sent]
        if seqs and max(seqs) - min(seqs) > 40000:
            self.classes.add("seq-wrap")
        # ---- safety: every frame handed to the decoder
        last_index = -1
        after_discard = True  # the first frame of the stream may be a tail
        delivered: dict = {}
        for ev in self.log:
            if ev[0] == "pli":
                after_discard = True
                self.classes.add("pli")
                continue
            if ev[0] == "nack":
                lost, recv_max = ev[1], ev[2]
                if len(lost) > 128:
                    self.problem = ("nack-too-long", f"a NACK lists {len(lost)} sequence numbers (> 128)")
                    return
                if recv_max is not None:
                    hi = self.sent[recv_max]["seq"]
                    for s_ in lost:
                        if ((hi - s_) & 0xFFFF) > 128 or ((hi - s_) & 0xFFFF) == 0:
                            self.problem = ("nack-out-of-window", f"NACK lists {s_} while the highest received sequence number is {hi}")
                            return
                continue
            _, ts, data = ev
            # the jitter buffer hands over timestamps relative to the first frame it saw (TimestampMapper)
            cand = [i for i, (sts, pieces) in enumerate(sent_frames) if b"".join(pieces) == data]
            tail = False
            if not cand:
                for i, (sts, pieces) in enumerate(sent_frames):
                    for k in range(1, len(pieces)):
                        if b"".join(pieces[k:]) == data:
                            cand, tail = [i], True
                            break
                    if cand:
                        break
            if not cand:
                self.problem = ("frame-spliced", f"a frame of {len(data)} bytes handed to the decoder is neither a sent frame nor the tail of one "
                                                 f"(starts {data[:12]!r})")
                return
            i = cand[0]
            if tail and not after_discard:
                self.problem = ("frame-tail", f"the decoder got only the tail of frame {i} although nothing had been discarded before it")
                return
            if tail:
                self.classes.add("tail")
            if i <= last_index:
                self.problem = ("frame-order", f"frame {i} handed to the decoder after frame {last_index}")
                return
            last_index = i
            delivered[i] = delivered.get(i, 0) + 1
            after_discard = False
        # ---- recovery
        if case.get("recovery"):
            received_idx = sorted(r["idx"] for r in self.sent if not r["lost"])
            if received_idx:
                lo, hi = received_idx[0], received_idx[-1]
                nacked = set()
                for ev in self.log:
                    if ev[0] == "nack":
                        nacked.update(ev[1])
                for r in self.sent:
                    if r["lost"] and lo < r["idx"] < hi:
                        self.classes.add("lost-in-the-middle")
                        if r["seq"] not in nacked:
                            self.problem = ("loss-not-nacked", f"media packet #{r['idx']} (seq {r['seq']}) was lost between received packets but "
                                                               f"never appeared in a NACK")
                            return
                        rt = self.retransmitted.get(r["seq"], [])
                        want = "rtx" if case.get("rtx") else "verbatim"
                        if not rt:
                            self.problem = ("loss-not-retransmitted", f"media packet #{r['idx']} (seq {r['seq']}) was NACKed but never resent")
                            return
                        if not any(k == want and (ssrc == (self.rtx_ssrc if want == "rtx" else self.media_ssrc)) and pl == r["payload"]
                                   for k, ssrc, pl in rt):
                            self.problem = ("retransmission-form", f"packet seq {r['seq']} was resent as {[(k, ssrc) for k, ssrc, _ in rt]}, expected {want}")
                            return
                # every frame except the first and the trailing ones exactly once (the trailing ones are the flush frames)
                first_frame = index_of_ts[self.sent[lo]["ts"]]
                last_full = min(index_of_ts[self.sent[hi]["ts"]], self.n_scheduled + 1)
                for i in range(first_frame + 1, last_full - 1):
                    if delivered.get(i, 0) != 1:
                        self.problem = ("frame-not-recovered", f"frame {i} reached the decoder {delivered.get(i, 0)} times although every retransmission "
                                                               f"request and retransmission got through (frames {first_frame}..{last_full} were in play)")
                        return
        if delivered:
            self.classes.add("frames-delivered")


def run_video(case: dict) -> Outcome:
    r = Run(case)
    shim_now = lambda: asyncio.get_event_loop().wall()  # noqa: E731
    seqs = counter_from([case.get("rtxseq0", 0) & 0xFFFF, case.get("seq0", 0) & 0xFFFF])
    r32 = counter_from([0x11110000, 0x22220000, case.get("ts0", 0) & 0xFFFFFFFF])
    try:
        with virtual_clocks(shim_now, sctp=False), patched(RX, decoder_worker=idle_worker, random=RandomShim([0.5])), \
                patched(TX, random=RandomShim([0.5]), random_sequence_number=seqs, random32=r32):
            vloop.run_sim(r.main, max_iterations=2_000_000, cpu_seconds=120)
    except vloop.SimAbort as exc:
        return Outcome(f"simulation aborted: {exc!r}", "sim-abort:" + type(exc).__name__, True, tuple(sorted(r.classes)))
    except asyncio.TimeoutError:
        return Outcome("sender or receiver did not stop within 20 s of virtual time", "stop-timeout", True, tuple(sorted(r.classes)))
    cl = tuple(sorted(r.classes))
    nt = "loss" in r.classes and "frames-delivered" in r.classes
    if r.problem:
        if r.problem[0].startswith("harness-"):
            raise RuntimeError(r.problem[1])
        return Outcome(r.problem[1], r.problem[0], nt, cl, info={"restarted_on_old_packet": r.restarted_on_old_packet})
    if r.restarted_on_old_packet:
        cl = tuple(sorted(set(cl) | {"buffer-restarted-on-old-packet"}))
    return Outcome(None, None, nt, cl)


CHECK = Check(
    prop="C11",
    level="exploration",
    rule=(
        "A real RTCRtpSender (VP8 or H.264 packetiser fed pre-encoded av.Packet frames of 1-8 RTP packets, every frame unique) "
        "and a real RTCRtpReceiver on a connected pair of real RTCDtlsTransport objects (router, SRTP, RTX unwrapping are the "
        "real ones); RTX negotiated or not; sequence / RTX sequence / timestamp origins incl. just below the wrap; per-datagram "
        "fates (drop, duplicate, delay) on the media direction and - in the safety family - on the feedback direction; in the "
        "recovery family feedback and retransmissions always get through and loss bursts stay below 20 packets. Oracle: every "
        "frame put on the decoder queue is byte-identical to a frame as the sender packetised it, or - only first / right "
        "after a PLI - a tail of one at a packet boundary; frame indices strictly increase; every NACK lists <= 128 sequence "
        "numbers within 128 behind the highest received; recovery family: every packet lost between received ones is NACKed "
        "and resent (RTX with the RTX SSRC and OSN when negotiated, else verbatim) and every frame between the first and the "
        "trailing ones reaches the decoder exactly once. Non-trivial = packets were lost and frames were delivered."
        " Family outage: 45-70 frames of 2-8 packets with one outage of 90-135 packets (around the jitter buffer restart threshold 100 and the 128-packet NACK window), everything delivered afterwards. A third of all cases run over a path whose datagram send suspends."
    ),
    families=[
        Family("safety", run_video, lambda tier: video_case(tier, recovery=False), quick=700, thorough=30000, min_shard=10),
        Family("recovery", run_video, lambda tier: video_case(tier, recovery=True), quick=700, thorough=30000, min_shard=10),
        Family("outage", run_video, outage_case, quick=400, thorough=15000, min_shard=10),
    ],
    recognisers={
        # what goes wrong once the buffer has started over on old packets: old frames (or their tails) come out after
        # newer ones, or a frame is handed over a second time
        "restart-on-late-retransmission": lambda fam, case, out: out.kind in ("frame-order", "frame-tail") and bool(out.info.get("restarted_on_old_packet")),
    },
    floor=100,
    assumptions=["OpenSSL/libsrtp trusted; the decoder thread is replaced by a tap (the property's own hook note); frames are recorded "
                 "when they are put on the receiver's decoder queue"],
)
