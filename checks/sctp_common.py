"""Shared evaluation of SCTP session simulations (C01, C02, C06, C17)."""

from __future__ import annotations

from typing import Optional

from vlib.runner import Outcome
from vlib.sctpsim import Session


def session_classes(s: Session) -> set:
    c = set()
    link = s.link
    if link is None:
        return c
    if sum(link.dropped):
        c.add("drop")
    if sum(link.duplicated):
        c.add("dup")
    if sum(link.delayed):
        c.add("delay")
    if link.faults_after_established:
        c.add("fault-after-established")
    if any(s.t3_expiries):
        c.add("t3")
    c.add(f"channels={len(s.channels)}")
    if any(len(m) > 1200 for r in s.channels for side in (0, 1) for m in r.sent[side]):
        c.add("multi-fragment")
    if any(m in ("", b"") for r in s.channels for side in (0, 1) for m in r.sent[side]):
        c.add("empty-message")
    if any(not r.params["ordered"] for r in s.channels):
        c.add("unordered")
    if s.skipped_sends:
        c.add("skipped-sends")
    if sum(link.bundled):
        c.add("bundled-packets")
    if link.yield_on_send:
        c.add("yielding-send")
    return c


def base_problems(s: Session) -> Optional[tuple]:
    """Exceptions escaping the receive path / API, harness aborts."""
    if s.abort is not None:
        return ("sim-abort:" + type(s.abort).__name__, f"simulation aborted: {s.abort!r}")
    for side in (0, 1):
        if s.endpoint_exc[side] is not None:
            e = s.endpoint_exc[side]
            return ("receive-path-raised:" + type(e).__name__, f"exception escaped _handle_data on side {side}: {e!r}")
    if s.loop is not None:
        for err in s.loop.logged_errors:
            exc = err.get("exc_obj")
            return ("task-raised:" + (type(exc).__name__ if exc is not None else "error"),
                    f"unhandled error in a library task: {err['message']} {err['exception']}")
    for n, op, rep, exc in s.api_errors:
        return ("api-raised:" + type(exc).__name__, f"op {n} ({op}) raised {rep}")
    return None


def complete_delivery(s: Session, only_reliable: bool = True) -> Optional[tuple]:
    for r in s.channels:
        reliable = r.params.get("mr") is None and r.params.get("mlt") is None
        if only_reliable and not reliable:
            continue
        for side in (0, 1):
            if len(r.delivered[side]) < len(r.sent[side]):
                return ("undelivered", f"channel {r.idx} {side}->{1 - side}: {len(r.sent[side])} sent, "
                                       f"{len(r.delivered[side])} delivered at quiescence")
    return None


def drain_verdict(s: Session) -> Optional[tuple]:
    """C02 oracle: after the fault-free suffix the association is quiescent."""
    rep = s.quiescent_report()
    if not all(s.was_established):
        # the handshake itself gave up (more than SCTP_MAX_INIT_RETRANS losses in a row): there never
        # was an association that "reports itself connected", so the statement does not apply
        return ("not-established", "")
    if s.stall is not None:
        return ("livelock", s.stall + f" {rep}")
    outstanding = any(rep["sent_queue"]) or any(rep["outbound_queue"]) or any(rep["dc_queue"])
    buffered = [(r.idx, side, ch.bufferedAmount) for r in s.channels for side, ch in r.objs.items() if ch.bufferedAmount != 0]
    if s.idle_status == "idle":
        if rep["states"] != ["connected", "connected"]:
            return ("association-lost", f"association no longer connected at quiescence: {rep}")
        if outstanding:
            return ("deadlock", f"loop idle (no timer pending) with work outstanding: {rep}")
        if buffered:
            return ("buffered-amount", f"bufferedAmount != 0 at quiescence: {buffered}")
        und = complete_delivery(s)
        if und:
            return und
        return None
    # deadline reached while timers keep firing
    if outstanding or complete_delivery(s):
        return ("inconclusive", f"virtual horizon reached while still making progress: {rep}")
    return None
