"""C04 - DTLS connects only to the fingerprinted peer; both sides derive matching
keys (DESIGN.md section 2/C04).  Two real RTCDtlsTransport objects over an
in-memory ICE pair on the virtual-time loop."""

from __future__ import annotations

import asyncio
import hashlib

from hypothesis import strategies as st

import aiortc.rtcdtlstransport as D
from aiortc import rtp as R
from vlib import vloop
from vlib.runner import Check, Family, Outcome

SUPPORTED = ["sha-256", "sha-384", "sha-512"]
UNSUPPORTED = ["sha-1", "md5", "sha-224", "sha256", "SHA1", "x"]
NPROF = len(D.SRTP_PROFILES)
_CERTS: list = []


def certs():
    if not _CERTS:
        _CERTS.extend([D.RTCCertificate.generateCertificate(), D.RTCCertificate.generateCertificate()])
    return _CERTS


# --------------------------------------------------------------------------
# generation


@st.composite
def fp_entry(draw):
    kind = draw(st.sampled_from(["good", "good", "good", "good", "good", "bad", "malformed", "unsupported", "unsupported"]))
    e = {"kind": kind}
    if kind == "unsupported":
        e["algo"] = draw(st.sampled_from(UNSUPPORTED))
        e["value"] = draw(st.sampled_from(["good-sha256", "junk", ""]))
    else:
        e["algo"] = draw(st.sampled_from(SUPPORTED))
        e["algo_case"] = draw(st.sampled_from(["lower", "lower", "upper", "mixed"]))
        e["value_case"] = draw(st.sampled_from(["upper", "lower", "mixed"]))
        if kind == "bad":
            e["flip"] = draw(st.integers(0, 63))
        if kind == "malformed":
            # a supported hash whose value is not a digest of that hash at all
            e["how"] = draw(st.sampled_from(["not-hex", "cut-char", "cut-byte", "extra-byte", "empty", "other-hash"]))
    return e


@st.composite
def traffic_item(draw):
    kind = draw(st.sampled_from(["rtp", "rtp", "rtcp", "data"]))
    return {"dir": draw(st.integers(0, 1)), "kind": kind, "len": draw(st.sampled_from([0, 1, 20, 200, 1000])), "fill": draw(st.integers(0, 255)),
            "ssrc": draw(st.sampled_from([1, 2, 0xFFFFFFFF])), "alter": draw(st.one_of(st.none(), st.none(), st.integers(0, 4000)))}


@st.composite
def dtls_case(draw, tier="quick"):
    profs = [draw(st.lists(st.integers(0, NPROF - 1), min_size=1, max_size=NPROF, unique=True)) for _ in range(2)]
    roles = draw(st.sampled_from([["client", "server"], ["server", "client"], ["auto", "auto"], ["auto", "auto"]]))
    return {"fps": [draw(st.lists(fp_entry(), min_size=1, max_size=4)) for _ in range(2)], "profiles": profs, "roles": roles,
            "controlling": draw(st.integers(0, 1)), "traffic": draw(st.lists(traffic_item(), max_size=12))}


def mixcase(s: str) -> str:
    return "".join(c.upper() if i % 2 else c.lower() for i, c in enumerate(s))


def build_fingerprints(entries: list, cert) -> list:
    out = []
    for e in entries:
        if e["kind"] == "unsupported":
            value = {"good-sha256": D.certificate_digest(cert._cert, "sha-256"), "junk": "AA:BB", "": ""}.get(e.get("value", "junk"), "AA:BB")
            out.append(D.RTCDtlsFingerprint(algorithm=e["algo"], value=value))
            continue
        value = D.certificate_digest(cert._cert, e["algo"])
        if e["kind"] == "bad":
            hexdigits = [i for i, c in enumerate(value) if c != ":"]
            pos = hexdigits[e.get("flip", 0) % len(hexdigits)]
            repl = "0" if value[pos] != "0" else "1"
            value = value[:pos] + repl + value[pos + 1:]
        if e["kind"] == "malformed":
            other = D.certificate_digest(cert._cert, next(a for a in SUPPORTED if a != e["algo"]))
            value = {"not-hex": "bogus_fingerprint", "cut-char": value[:-1], "cut-byte": value[:-3], "extra-byte": value + ":00",
                     "empty": "", "other-hash": other}.get(e.get("how"), "bogus_fingerprint")
        value = {"upper": value.upper(), "lower": value.lower(), "mixed": mixcase(value)}[e.get("value_case", "upper")]
        algo = {"lower": e["algo"], "upper": e["algo"].upper(), "mixed": mixcase(e["algo"])}[e.get("algo_case", "lower")]
        out.append(D.RTCDtlsFingerprint(algorithm=algo, value=value))
    return out


def policy(entries: list) -> bool:
    """Reference: at least one entry with a supported hash, and every such entry is a correct digest."""
    sup = [e for e in entries if e["kind"] != "unsupported"]
    return bool(sup) and all(e["kind"] == "good" for e in sup)


# --------------------------------------------------------------------------
# in-memory ICE pair


class Ice:
    def __init__(self, role: str) -> None:
        self.role = role
        self.queue: asyncio.Queue = asyncio.Queue()
        self.peer: "Ice" = None  # type: ignore[assignment]
        self.alter_next = None
        self.closed = False
        self.sent_app = 0

    async def _recv(self) -> bytes:
        data = await self.queue.get()
        if data is None:
            raise ConnectionError
        return data

    async def _send(self, data: bytes) -> None:
        if self.closed or self.peer.closed:
            raise ConnectionError
        first = data[0]
        app = first == 23 or 127 < first < 192  # DTLS application data or SRTP/SRTCP: never a handshake flight
        if app and self.alter_next is not None:
            bit = self.alter_next % (len(data) * 8)
            if first == 23 and 88 <= bit < 104:
                # the 16-bit length field of a DTLS record: a length below the AEAD overhead makes OpenSSL (trusted, not the
                # code under test) answer with a fatal alert instead of dropping the record; alter the body instead
                bit += 16
            self.alter_next = None
            b = bytearray(data)
            b[bit // 8] ^= 1 << (bit % 8)
            data = bytes(b)
        await self.peer.queue.put(data)

    async def stop(self) -> None:
        if not self.closed:
            self.closed = True
            await self.queue.put(None)


def payload_bytes(n: int, fill: int) -> bytes:
    return bytes((fill + i * 13) & 0xFF for i in range(n))


class Run:
    def __init__(self, case: dict) -> None:
        self.case = case
        self.problem = None
        self.classes: set = set()

    async def main(self, loop: vloop.VLoop) -> None:
        case = self.case
        ctrl = case.get("controlling", 0) % 2
        ices = [Ice("controlling" if ctrl == 0 else "controlled"), Ice("controlling" if ctrl == 1 else "controlled")]
        ices[0].peer, ices[1].peer = ices[1], ices[0]
        cs = certs()
        ts = [D.RTCDtlsTransport(ices[i], [cs[i]]) for i in (0, 1)]
        got: list = [{"rtp": [], "rtcp": [], "data": []}, {"rtp": [], "rtcp": [], "data": []}]
        for i, t in enumerate(ts):
            sel = [D.SRTP_PROFILES[k % NPROF] for k in case["profiles"][i]] or list(D.SRTP_PROFILES)
            t._srtp_profiles = sel
            role = case["roles"][i]
            if role in ("client", "server"):
                t._set_role(role)

            async def rtp_in(data, arrival_time_ms, i=i):
                got[i]["rtp"].append(bytes(data))

            async def rtcp_in(data, i=i):
                got[i]["rtcp"].append(bytes(data))

            t._handle_rtp_data = rtp_in  # type: ignore[method-assign]
            t._handle_rtcp_data = rtcp_in  # type: ignore[method-assign]

            class Sink:
                def __init__(self, i):
                    self.i = i

                async def _handle_data(self, data):
                    got[self.i]["data"].append(bytes(data))

            t._register_data_receiver(Sink(i))
        params = [D.RTCDtlsParameters(fingerprints=build_fingerprints(case["fps"][i], cs[1 - i])) for i in (0, 1)]
        try:
            try:
                await asyncio.wait_for(asyncio.gather(ts[0].start(params[0]), ts[1].start(params[1])), timeout=60)
            except asyncio.TimeoutError:
                self.classes.add("handshake-timeout")
            except Exception as exc:
                self.problem = ("start-raised:" + type(exc).__name__, f"start() raised {exc!r}")
                return
            await asyncio.sleep(0.05)
            ok = [policy(case["fps"][i]) for i in (0, 1)]
            common = bool(set(k % NPROF for k in case["profiles"][0]) & set(k % NPROF for k in case["profiles"][1]))
            states = [t.state for t in ts]
            self.classes.add("policy=" + "".join("Y" if o else "N" for o in ok) + ("" if common else "/no-common-profile"))
            for i in (0, 1):
                must_fail = not ok[i] or not common
                if must_fail and states[i] == "connected":
                    why = "its fingerprint list does not satisfy the policy" if not ok[i] else "the SRTP profile lists have nothing in common"
                    self.problem = ("connected-but-must-fail", f"side {i} reached connected although {why}: {self.describe(i)}")
                    return
                if must_fail and states[i] != "failed":
                    self.problem = ("not-failed", f"side {i} ended in {states[i]} instead of failed: {self.describe(i)}")
                    return
            if all(ok) and common:
                if states != ["connected", "connected"]:
                    self.problem = ("good-peer-rejected", f"both fingerprint lists satisfy the policy and a common SRTP profile exists, but states are "
                                                          f"{states}: {self.describe(0)} / {self.describe(1)}")
                    return
                await self.exchange(ts, ices, got)
            else:
                # a failed side hands nothing over and refuses to send
                for i in (0, 1):
                    if states[i] == "failed":
                        for fn, arg in ((ts[i]._send_data, b"x"), (ts[i]._send_rtp, self.rtp_packet(1, 1, b"x"))):
                            try:
                                await fn(arg)
                                self.problem = ("failed-side-sends", f"side {i} is failed but {fn.__name__} did not raise ConnectionError")
                                return
                            except ConnectionError:
                                pass
                        # whatever the (possibly connected) peer sends must not be delivered
                        j = 1 - i
                        if states[j] == "connected":
                            try:
                                await ts[j]._send_data(b"secret")
                                await ts[j]._send_rtp(self.rtp_packet(9, 1, b"secret"))
                            except ConnectionError:
                                pass
                            await asyncio.sleep(0.05)
                        if got[i]["data"] or got[i]["rtp"] or got[i]["rtcp"]:
                            self.problem = ("failed-side-delivers", f"side {i} is failed but handed over {got[i]}")
                            return
        finally:
            for t in ts:
                try:
                    await asyncio.wait_for(t.stop(), 10)
                except Exception:
                    pass
            for ice in ices:
                await ice.stop()
            await asyncio.sleep(0.01)

    def describe(self, i: int) -> str:
        return "fingerprints " + str([(e["kind"], e["algo"]) for e in self.case["fps"][i]]) + " profiles " + str(self.case["profiles"][i])

    def rtp_packet(self, seq: int, ssrc: int, payload: bytes) -> bytes:
        return R.RtpPacket(payload_type=96, sequence_number=seq & 0xFFFF, timestamp=seq * 90, ssrc=ssrc, payload=payload).serialize()

    async def exchange(self, ts, ices, got) -> None:
        self.classes.add("both-connected")
        seqs: dict = {}
        expect: list = [{"rtp": [], "rtcp": [], "data": []}, {"rtp": [], "rtcp": [], "data": []}]
        for n, item in enumerate(self.case.get("traffic", [])):
            if not isinstance(item, dict):
                continue
            src = item.get("dir", 0) % 2
            dst = 1 - src
            kind = item.get("kind", "data")
            body = payload_bytes(item.get("len", 1), item.get("fill", 0) + n)
            altered = item.get("alter") is not None
            if altered:
                ices[src].alter_next = item["alter"]
                self.classes.add("altered-" + kind)
            try:
                if kind == "data":
                    if not body:
                        ices[src].alter_next = None
                        continue
                    plain = body
                    await ts[src]._send_data(plain)
                elif kind == "rtp":
                    key = (src, item.get("ssrc", 1))
                    seqs[key] = seqs.get(key, 100) + 1
                    plain = self.rtp_packet(seqs[key], item.get("ssrc", 1), body)
                    await ts[src]._send_rtp(plain)
                else:
                    plain = bytes(R.RtcpRrPacket(ssrc=item.get("ssrc", 1))) + bytes(R.RtcpSdesPacket(chunks=[R.RtcpSourceInfo(ssrc=1, items=[(1, body[:200])])]))
                    await ts[src]._send_rtp(plain)
            except Exception as exc:
                self.problem = ("send-raised:" + type(exc).__name__, f"sending {kind} #{n} on a connected transport raised {exc!r}")
                return
            ices[src].alter_next = None
            if not altered:
                expect[dst][kind].append(plain)
            await asyncio.sleep(0.001)
        await asyncio.sleep(0.05)
        for i in (0, 1):
            for kind in ("rtp", "rtcp", "data"):
                if got[i][kind] != expect[i][kind]:
                    a, b = expect[i][kind], got[i][kind]
                    extra = [x for x in b if x not in a]
                    missing = [x for x in a if x not in b]
                    what = "an altered datagram was delivered" if extra else ("an intact unit was not delivered" if missing else "order/duplication differs")
                    self.problem = ("delivery-" + kind, f"side {i} {kind}: {what}: expected {len(a)} units, got {len(b)} "
                                                        f"(profiles {self.case['profiles']}, roles {self.case['roles']}/{self.case.get('controlling')})")
                    return
        if [t.state for t in ts] != ["connected", "connected"]:
            self.problem = ("not-connected-after-traffic", f"states after the traffic: {[t.state for t in ts]}")


def run_dtls(case: dict) -> Outcome:
    r = Run(case)
    try:
        vloop.run_sim(r.main, max_iterations=400000, cpu_seconds=120)
    except vloop.SimAbort as exc:
        return Outcome(f"simulation aborted: {exc!r}", "sim-abort:" + type(exc).__name__, True, tuple(sorted(r.classes)))
    fps = case["fps"]
    kinds = [{e["kind"] for e in f} for f in fps]
    mixed = any(len(k) > 1 for k in kinds) or any(e.get("value_case") in ("lower", "mixed") or e.get("algo_case") in ("upper", "mixed")
                                                  for f in fps for e in f)
    nondefault = any(p != list(range(NPROF)) for p in case["profiles"])
    altered = any(isinstance(t, dict) and t.get("alter") is not None for t in case.get("traffic", []))
    nt = mixed or nondefault or altered
    cl = tuple(sorted(r.classes))
    if r.problem:
        return Outcome(r.problem[1], r.problem[0], nt, cl)
    return Outcome(None, None, nt, cl)


CHECK = Check(
    prop="C04",
    level="exploration",
    rule=(
        "Two real RTCDtlsTransport objects (OpenSSL DTLS, libsrtp) over an in-memory ICE pair. Per side a list of 1-4 remote "
        "fingerprints over {correct sha-256/384/512 with the value in upper/lower/mixed case and the algorithm name in any "
        "case, a copy with one hex digit changed, a supported hash with a value that is no digest of it (not hex, one character or "
        "byte short or long, empty, another hash's digest), an unsupported algorithm (sha-1, md5, sha-224, sha256, ...) with any value}; "
        "per side a non-empty ordered sub-list of the SRTP profiles; roles client/server either way or auto with either ICE "
        "role; then up to 12 RTP / RTCP / data units in both directions, some with one bit flipped in the ciphertext datagram. "
        "Reference policy P = at least one supported entry and every supported entry matches (case-insensitively). Oracle: a "
        "side whose list violates P, or any side when the profile lists are disjoint, ends in failed, hands nothing over and "
        "refuses to send; when P holds on both sides and a profile is shared both reach connected, every unaltered unit is "
        "delivered byte-identical and in order, no altered datagram produces a callback and both stay connected. "
        "Non-trivial = mixed list / non-default case / non-default profile list / altered datagram."
    ),
    families=[Family("handshakes", run_dtls, dtls_case, quick=1500, thorough=40000, min_shard=20)],
    floor=200,
    assumptions=["OpenSSL and libsrtp are trusted; handshake flights are never dropped or altered (OpenSSL's retransmission timer runs on the real clock)"],
)
