"""C19 - close() always completes, is idempotent and leaves nothing running
(DESIGN.md section 2/C19).  close() is started eagerly from inside the k-th
loop handle of a generated scenario (every await boundary is a possible k), on
one or both peers; afterwards states, channels, tracks, events, tasks and
threads are inspected."""

from __future__ import annotations

import asyncio
import threading

from hypothesis import strategies as st

from checks.c03_negotiation import apply_item, config_case
from vlib import vloop
from vlib.pcsim import DecoderTap, EventLog, ThreadRegistry, make_pc, run_pc_sim, wait_for
from vlib.runner import Check, Family, Outcome

PREFIXES = ["nothing", "offer-created", "offer-applied", "offer-received", "negotiated", "connected", "remote-closed"]


@st.composite
def close_case(draw, tier="quick"):
    cfg = draw(config_case(tier))
    cfg["followup"] = None
    cfg["reorder"] = None
    # (a negotiated audio+video+data session runs through ~100-700 loop handles; the negotiation calls sit in the first ~100)
    kk = st.one_of(st.integers(1, 30), st.integers(1, 120), st.integers(40, 400), st.integers(40, 400), st.integers(1, 800))
    return {"config": cfg, "prefix": draw(st.sampled_from(PREFIXES + ["connected", "connected", "negotiated", "negotiated", "remote-closed"])),
            "k": draw(kk),
            "side": draw(st.integers(0, 1)),
            "k_other": draw(st.one_of(st.none(), st.none(), kk)),
            "again": draw(st.sampled_from([None, None, 0, 5, 200])),
            # a second close() on the same side that many loop handles after the first one started (overlapping it)
            # a decoder that is still working on its first frames (60 ms of real time per thread) when things happen
            "aged": draw(st.sampled_from([False, False, False, False, False, True])),
            "busy_decoder": draw(st.sampled_from([False, False, False, False, True])),
            "k_same": draw(st.one_of(st.none(), st.none(), st.integers(1, 5), st.integers(1, 60))),
            "yields": draw(st.integers(0, 3)),
            # things an application may do on the way: stop one transceiver, start a second negotiation round
            "extras": draw(st.lists(st.one_of(
                st.tuples(st.sampled_from(["stop-transceiver", "reoffer", "reoffer"]), st.integers(1, 6), st.integers(0, 1)).map(list),
                st.tuples(st.sampled_from(["peer-goes-away", "peer-dtls-closes", "own-transport-stopped"]), st.sampled_from([4, 5, 6, 6]), st.integers(0, 1)).map(list)),
                max_size=2)),
            # a quarter of the cases over a path whose datagram send suspends (TURN relay): more interleavings inside
            # every coroutine that sends
            "yield_send": draw(st.sampled_from([False, False, False, True]))}


class Scenario:
    def __init__(self, case: dict) -> None:
        self.case = case
        self.problem = None
        self.classes: set = set()
        self.pcs: list = []
        self.close_tasks: dict = {}
        self.close_done: dict = {}
        self.close_started_state: dict = {}
        self.late_events: list = []
        self.in_call = None  # the negotiation call the driver is inside of
        self.driver_errors: list = []
        self.handles_at_end = 0
        self.threads = ThreadRegistry()
        self.busy_stopping: set = set()
        self.deferred_inject: set = set()

    def fail(self, kind: str, msg: str) -> None:
        if self.problem is None:
            self.problem = (kind, msg)

    # ---- event bookkeeping: anything emitted on an object of a closed connection is a violation
    def watch(self, idx: int, obj, name: str) -> None:
        if obj is None or getattr(obj, "_c19_watched", False):
            return
        obj._c19_watched = True
        orig = obj.emit

        def emit(event, *a, **kw):
            if idx in self.close_done:
                self.late_events.append((idx, name, event))
            return orig(event, *a, **kw)

        obj.emit = emit

    def watch_all(self, idx: int) -> None:
        pc = self.pcs[idx]
        self.watch(idx, pc, "pc")
        for t in getattr(pc, "_RTCPeerConnection__dtlsTransports", set()):
            self.watch(idx, t, "dtls")
            self.watch(idx, t.transport, "ice")
        if pc.sctp is not None:
            self.watch(idx, pc.sctp, "sctp")
            for ch in list(pc.sctp._data_channels.values()):
                self.watch(idx, ch, f"channel")

    # ---- the injected close
    async def do_close(self, idx: int, loop: vloop.VLoop) -> None:
        pc = self.pcs[idx]
        self.watch_all(idx)
        self.close_started_state[idx] = (pc.signalingState, pc.connectionState, pc.iceConnectionState, self.in_call)
        t0 = loop.time()
        try:
            async with asyncio.timeout(60):
                await pc.close()
        except TimeoutError:
            self.fail("close-hangs", f"close() on pc {idx} did not return within 60 s of virtual time (started in state "
                                     f"{self.close_started_state[idx]})")
            return
        except Exception as exc:
            self.fail("close-raised:" + type(exc).__name__, f"close() on pc {idx} raised {exc!r} (started in state {self.close_started_state[idx]})")
            return
        self.watch_all(idx)
        self.close_done[idx] = loop.time() - t0
        # "no dedicated thread started by the connection is left running": judged at the moment close() returns
        alive = [t.name for t in self.threads.of_connection(pc) if t.is_alive()]
        if alive:
            self.fail("thread-left-running-at-return", f"pc {idx}: close() returned while its decoder thread(s) {alive} were still running "
                                                       f"(close() started in state {self.close_started_state[idx]})")

    def inject(self, idx: int, loop: vloop.VLoop) -> None:
        if idx in self.close_tasks or idx >= len(self.pcs):
            return
        if idx in self.busy_stopping:
            # the harness itself is stopping this connection's DTLS transports right now (peer-dtls-closes); two overlapping
            # stop() calls on one transport are not what this check is about - the close() follows when that is done
            self.deferred_inject.add(idx)
            return
        self.close_tasks[idx] = asyncio.Task(self.do_close(idx, loop), loop=loop, eager_start=True, name=f"harness-close-{idx}")

    async def do_overlapping_close(self, idx: int, loop: vloop.VLoop) -> None:
        """A second close() on the same connection while the first one is still running: it, too, only returns once the
        connection is closed."""
        pc = self.pcs[idx]
        try:
            async with asyncio.timeout(60):
                await pc.close()
        except Exception as exc:
            self.fail("overlapping-close-raised:" + type(exc).__name__, f"a close() overlapping another one on pc {idx} raised / hung: {exc!r}")
            return
        states = (pc.signalingState, pc.iceConnectionState, pc.connectionState)
        if states != ("closed", "closed", "closed"):
            self.fail("overlapping-close-returned-early", f"pc {idx}: a close() issued while another close() was in progress returned with "
                                                          f"signaling/ice/connection state = {states} (first close() started in state "
                                                          f"{self.close_started_state.get(idx)})")

    def inject_overlapping(self, idx: int, loop: vloop.VLoop) -> None:
        first = self.close_tasks.get(idx)
        if first is None or first.done() or ("overlap", idx) in self.close_tasks:
            return
        self.classes.add("overlapping-close")
        self.close_tasks[("overlap", idx)] = asyncio.Task(self.do_overlapping_close(idx, loop), loop=loop, eager_start=True,
                                                           name=f"harness-close-again-{idx}")

    async def call(self, name: str, coro_fn):
        """One API call of the driver; once a close has been injected its failures are expected."""
        self.in_call = name
        try:
            return await coro_fn()
        except Exception as exc:
            if not self.close_tasks:
                # the scenario did not get as far as planned (the extras can make a later call of the script illegal: an
                # offer made before a transceiver was stopped, an answer to an offer that was replaced meanwhile); that
                # is no statement about close(), which is still issued and judged below
                self.classes.add("driver-call-raised:" + type(exc).__name__)
            self.driver_errors.append((name, type(exc).__name__))
            raise
        finally:
            self.in_call = None

    async def driver(self, loop: vloop.VLoop, logs: list, made: list) -> None:
        case = self.case
        cfg = case["config"]
        a, b = self.pcs
        prefix = case.get("prefix", "negotiated")
        level = PREFIXES.index(prefix) if prefix in PREFIXES else 4
        for _ in range(case.get("yields", 0)):
            await asyncio.sleep(0)

        async def extras(at: int) -> None:
            for ex in case.get("extras", []):
                if not (isinstance(ex, list) and len(ex) == 3) or ex[1] != at:
                    continue
                pc = self.pcs[ex[2] % 2]
                if ex[0] == "stop-transceiver":
                    trs = pc.getTransceivers()
                    if trs:
                        self.classes.add("transceiver-stopped")
                        await self.call("transceiver.stop", trs[0].stop)
                elif ex[0] == "peer-goes-away" and at >= 4:
                    # the other side closes (it keeps its descriptions, so the exchange can still be completed against it)
                    self.classes.add("peer-goes-away")
                    self.inject(1, loop)
                    await asyncio.sleep(0)
                elif ex[0] == "peer-dtls-closes" and at >= 5 and self.pcs.index(pc) not in self.close_tasks:
                    # the other side vanishes the way a browser tab does: a DTLS close_notify and nothing else (no RTCP BYE,
                    # no SCTP shutdown)
                    self.classes.add("peer-dtls-closes")
                    idx = self.pcs.index(pc)
                    self.busy_stopping.add(idx)
                    try:
                        for t in list(getattr(pc, "_RTCPeerConnection__dtlsTransports", [])):
                            try:
                                await t.stop()
                            except Exception:
                                pass
                    finally:
                        self.busy_stopping.discard(idx)
                    if idx in self.deferred_inject:
                        self.deferred_inject.discard(idx)
                        self.inject(idx, loop)
                    await asyncio.sleep(0.05)
                elif ex[0] == "own-transport-stopped" and at >= 5 and self.pcs.index(pc) not in self.close_tasks:
                    # an application that uses the ORTC-level objects: it stops the connection's DTLS transports itself and
                    # closes the connection right afterwards
                    self.classes.add("own-transport-stopped")
                    idx = self.pcs.index(pc)
                    self.busy_stopping.add(idx)
                    try:
                        for t in list(getattr(pc, "_RTCPeerConnection__dtlsTransports", [])):
                            try:
                                await t.stop()
                            except Exception:
                                pass
                    finally:
                        self.busy_stopping.discard(idx)
                        self.deferred_inject.discard(idx)
                    self.inject(idx, loop)
                elif ex[0] == "reoffer" and (at >= 5 or pc is self.pcs[0]) and pc.signalingState in ("stable", "have-local-offer") \
                        and self.pcs.index(pc) not in self.close_tasks:
                    self.classes.add("reoffer")
                    o2 = await self.call("createOffer", pc.createOffer)
                    await self.call("setLocalDescription(offer)", lambda: pc.setLocalDescription(o2))

        if level >= 1:
            offer = await self.call("createOffer", a.createOffer)
            await extras(1)
        if level >= 2:
            await self.call("setLocalDescription(offer)", lambda: a.setLocalDescription(offer))
            await extras(2)
        if level >= 3:
            await self.call("setRemoteDescription(offer)", lambda: b.setRemoteDescription(a.localDescription))
            await extras(3)
        if level >= 4:
            answer = await self.call("createAnswer", b.createAnswer)
            await self.call("setLocalDescription(answer)", lambda: b.setLocalDescription(answer))
            answer_applied = b.localDescription
            await extras(4)
            await self.call("setRemoteDescription(answer)", lambda: a.setRemoteDescription(answer_applied))
            await extras(5)
        if level >= 5:
            await wait_for(lambda: all(pc.connectionState in ("connected", "failed", "closed") for pc in self.pcs), timeout=20)
            for side in (0, 1):
                for ch in made[side]["channels"]:
                    if ch.readyState == "open":
                        ch.send("hello")
            await asyncio.sleep(0.3)
            if case.get("aged"):
                # a connection that has been up for a long time: the senders' packet / octet counters are about to pass
                # 2^32 (4 GiB sent); sender reports go on for a while before anything is closed
                self.classes.add("aged-counters")
                for pc in self.pcs:
                    for snd in pc.getSenders():
                        if hasattr(snd, "_RTCRtpSender__octet_count"):
                            snd._RTCRtpSender__octet_count = 2**32 - 40
                            snd._RTCRtpSender__packet_count = 2**32 - 2
                await asyncio.sleep(2.5)
            await extras(6)
        if level >= 6:
            self.inject(1, loop)
            await asyncio.sleep(1.0)
        await asyncio.sleep(1.0)

    async def main(self, loop: vloop.VLoop) -> None:
        case = self.case
        cfg = case["config"]
        self.pcs = [make_pc(cfg["offerer"]["bundle"], cfg["offerer"].get("always_dc", False)), make_pc(cfg["answerer"]["bundle"])]
        logs = [EventLog("a", self.pcs[0], loop), EventLog("b", self.pcs[1], loop)]
        made = [{"channels": [], "tracks": []}, {"channels": [], "tracks": []}]
        for side, key in ((0, "offerer"), (1, "answerer")):
            for it in cfg[key]["items"]:
                apply_item(self.pcs[side], it, logs[side], made[side])
        if not cfg["offerer"]["items"] and not cfg["offerer"].get("always_dc"):
            self.pcs[0].createDataChannel("x")
        side = case.get("side", 0) % 2
        k, k_other = case.get("k", 1), case.get("k_other")
        k_same = case.get("k_same") if isinstance(case.get("k_same"), int) and case.get("k_same") > 0 else None
        base = loop.handles_run

        def hook(n: int) -> None:
            rel = n - base
            if rel == k:
                self.inject(side, loop)
            if k_other is not None and rel == k_other:
                self.inject(1 - side, loop)
            if k_same is not None and rel == k + k_same:
                self.inject_overlapping(side, loop)

        loop.before_handle = hook
        driver = asyncio.ensure_future(self.driver(loop, logs, made))
        driver.set_name("harness-driver")
        try:
            await driver
        except Exception:
            pass
        loop.before_handle = None
        self.handles_at_end = loop.handles_run - base
        # a close that was scheduled beyond the end of the scenario happens now
        if side not in self.close_tasks:
            self.classes.add("close-after-scenario")
            self.inject(side, loop)
        for t in list(self.close_tasks.values()):
            await t
        if self.problem:
            await self.cleanup(loop, made)
            return
        pc = self.pcs[side]
        # ---- idempotence
        again = case.get("again")
        if again is not None:
            await asyncio.sleep(again / 1000.0)
        for _ in range(2):
            t0, h0 = loop.time(), loop.handles_run
            try:
                async with asyncio.timeout(5):
                    await pc.close()
            except Exception as exc:
                self.fail("second-close", f"calling close() again raised / hung: {exc!r}")
            if loop.time() - t0 > 0.001:
                self.fail("second-close-slow", f"a second close() took {loop.time() - t0:.3f} s of virtual time")
        # ---- states
        for idx in self.close_done:
            p = self.pcs[idx]
            states = (p.signalingState, p.iceConnectionState, p.connectionState)
            if states != ("closed", "closed", "closed"):
                self.fail("state-not-closed", f"pc {idx} after close(): signaling/ice/connection state = {states} (close() was started in state "
                                              f"{self.close_started_state.get(idx)})")
        await asyncio.sleep(2.0)
        for idx in self.close_done:
            p = self.pcs[idx]
            states = (p.signalingState, p.iceConnectionState, p.connectionState)
            if states != ("closed", "closed", "closed"):
                self.fail("state-not-closed-later", f"pc {idx} 2 s after close(): signaling/ice/connection state = {states} (close() was started in "
                                                    f"state {self.close_started_state.get(idx)})")
            for ch in made[idx]["channels"] + logs[idx].channels:
                if ch.readyState != "closed":
                    self.fail("channel-not-closed", f"pc {idx}: data channel {ch.label!r} (id {ch.id}) is {ch.readyState} after close() "
                                                    f"(close() started in state {self.close_started_state.get(idx)})")
            for tr in logs[idx].tracks:
                # a received track ends lazily: the end marker travels through its queue, so "ended" is observed the way an
                # application observes it - recv() must fail with MediaStreamError after at most the frames already queued
                from aiortc.mediastreams import MediaStreamError

                ended = tr.readyState == "ended"
                for _ in range(tr._queue.qsize() + 1):
                    if ended:
                        break
                    try:
                        async with asyncio.timeout(1.0):
                            await tr.recv()
                    except MediaStreamError:
                        ended = True
                    except TimeoutError:
                        break
                if not ended:
                    self.fail("track-not-ended", f"pc {idx}: a received {tr.kind} track never ends after close(): recv() keeps waiting "
                                                 f"(close() started in state {self.close_started_state.get(idx)})")
        if self.late_events:
            idx, name, event = self.late_events[0]
            self.fail("event-after-close", f"pc {idx}: {name} emitted {event!r} after close() had returned ({len(self.late_events)} late events; "
                                           f"close() started in state {self.close_started_state.get(idx)})")
        await self.cleanup(loop, made)

    async def cleanup(self, loop: vloop.VLoop, made: list) -> None:
        # close whatever is still open, then nothing of the library may be left running
        for idx, pc in enumerate(self.pcs):
            if idx not in self.close_tasks:
                try:
                    async with asyncio.timeout(60):
                        await pc.close()
                except Exception as exc:
                    self.fail("final-close", f"closing pc {idx} at the end raised / hung: {exc!r}")
        for m in made:
            for t in m["tracks"]:
                t.stop()
        status = await loop.until_idle(max_vtime=120)
        me = asyncio.current_task()
        left = [t for t in asyncio.all_tasks(loop) if t is not me and not t.done() and not t.get_name().startswith("harness-")]
        if left:
            names = sorted({(t.get_coro().__qualname__ if t.get_coro() is not None else t.get_name()) for t in left})
            self.fail("task-left-running", f"{len(left)} task(s) still pending after both connections were closed (loop {status}): {names[:6]} "
                                           f"(close() started in state {self.close_started_state})")
            for t in left:
                t.cancel()
        threads = [t.name for t in threading.enumerate() if t.name.endswith("-decoder")]
        if threads:
            self.fail("thread-left-running", f"decoder thread(s) still alive after close(): {threads}")
        for err in loop.logged_errors:
            # only errors that pass through the library's own code count: aioice / asyncio internals are trusted as given,
            # and their timing depends on the real UDP sockets underneath
            exc = err.get("exc_obj")
            tb = exc.__traceback__ if exc is not None else None
            files = []
            while tb is not None:
                files.append(tb.tb_frame.f_code.co_filename)
                tb = tb.tb_next
            if not any("/aiortc/" in f for f in files):
                self.classes.add("third-party-loop-error")
                continue
            self.fail("task-exception", f"error reported by the event loop: {err['message']} {err['exception']} "
                                        f"(close() started in state {self.close_started_state})")
            break


def run_close(case: dict) -> Outcome:
    sc = Scenario(case)
    try:
        run_pc_sim(sc.main, max_iterations=3_000_000, cpu_seconds=60, yield_send=bool(case.get("yield_send")), threads=sc.threads,
                   tap=DecoderTap(busy_ms=60 if case.get("busy_decoder") else 0))
    except vloop.CpuBudgetExceeded:
        return Outcome(f"a busy loop: 60 s of CPU without the scenario finishing (close() started in state {sc.close_started_state})",
                       "busy-loop", True, tuple(sorted(sc.classes)))
    except vloop.SimAbort as exc:
        return Outcome(f"simulation aborted: {exc!r} (close() started in state {sc.close_started_state})", "sim-abort:" + type(exc).__name__,
                       True, tuple(sorted(sc.classes)))
    classes = set(sc.classes)
    started = sc.close_started_state.get(case.get("side", 0) % 2)
    if started:
        classes.add("at-signaling=" + started[0])
    if case.get("yield_send"):
        classes.add("yielding-send")
        classes.add("at-connection=" + started[1])
        if started[3]:
            classes.add("during=" + started[3])
    if len([k for k in sc.close_tasks if isinstance(k, int)]) > 1:
        classes.add("both-sides")
    nt = bool(started) and (started[3] is not None or started[1] in ("connecting",) or started[2] == "checking"
                            or started[0] != "stable") and "close-after-scenario" not in classes
    cl = tuple(sorted(classes))
    if sc.problem:
        return Outcome(sc.problem[1], sc.problem[0], nt, cl)
    return Outcome(None, None, nt, cl, info={"handles": sc.handles_at_end})


# thorough: every interruption point of a few fixed configurations
FIXED = [
    {"offerer": {"bundle": "max-bundle", "always_dc": False, "items": [
        {"t": "tr", "kind": "audio", "via": "track", "dir": "sendrecv", "track": True, "prefs": None},
        {"t": "tr", "kind": "video", "via": "track", "dir": "sendrecv", "track": True, "prefs": None},
        {"t": "dc", "label": "chat", "ordered": True, "mr": None, "mlt": None}]},
     "answerer": {"bundle": "max-bundle", "always_dc": False, "items": [
         {"t": "tr", "kind": "audio", "via": "track", "dir": "sendrecv", "track": True, "prefs": None}]},
     "followup": None, "connect": True, "reorder": None},
    {"offerer": {"bundle": "balanced", "always_dc": False, "items": [{"t": "dc", "label": "chat", "ordered": True, "mr": None, "mlt": None}]},
     "answerer": {"bundle": "balanced", "always_dc": False, "items": []}, "followup": None, "connect": True, "reorder": None},
    {"offerer": {"bundle": "max-compat", "always_dc": False, "items": [
        {"t": "tr", "kind": "audio", "via": "transceiver", "dir": "sendonly", "track": True, "prefs": None},
        {"t": "tr", "kind": "video", "via": "transceiver", "dir": "recvonly", "track": False, "prefs": None}]},
     "answerer": {"bundle": "max-compat", "always_dc": False, "items": []}, "followup": None, "connect": True, "reorder": None},
]


def enum_points(tier: str):
    if tier != "thorough":
        return
    for cfg in FIXED:
        probe = {"config": cfg, "prefix": "connected", "k": 10**9, "side": 0, "k_other": None, "again": None, "yields": 0}
        out = run_close(probe)
        n = out.info.get("handles", 800)
        for side in (0, 1):
            for k in range(1, n + 1):
                yield {"config": cfg, "prefix": "connected", "k": k, "side": side, "k_other": None, "again": None, "yields": 0}


CHECK = Check(
    prop="C19",
    level="fault_enumeration",
    rule=(
        "A C03 configuration pair (transceivers with packet tracks, data channels, bundle policies), a scenario prefix (nothing / "
        "offer created / offer applied / offer received / negotiated / connected with traffic / remote side closed first) and "
        "an interruption point k: close() is started eagerly (asyncio eager task) from inside the k-th event-loop handle of the "
        "scenario, i.e. at an await boundary of whatever the connection was doing, optionally also at k' on the other peer and "
        "optionally called again later. quick samples k in 1..1500; thorough additionally enumerates every k of three fixed "
        "configurations on both sides. Oracle: close() returns within 60 s of virtual time and without a busy loop; further "
        "close() calls return at once; signalingState / iceConnectionState / connectionState are closed right afterwards and "
        "2 s later; every data channel is closed, received tracks ended; nothing is emitted on the connection, its transports "
        "or channels afterwards; once both peers are closed no library task is pending, no *-decoder thread lives and the loop "
        "reported no unretrieved task exception. Non-trivial = close() began while a negotiation call was in flight or "
        "ICE/DTLS/SCTP were still connecting."
        " Case dimensions added: a second close() overlapping the first on the same connection, a stand-in decoder still busy for 60 ms of real time per thread (threads attributed to their connection, judged when close() returns), a peer that only sends a DTLS close_notify, senders whose counters are about to pass 2^32, a path whose datagram send suspends."
    ),
    families=[
        Family("interruptions", run_close, close_case, quick=3000, thorough=40000, min_shard=10),
        Family("all-points", run_close, enumerate=enum_points, thorough_only=True,
               exhaustive_note="every loop-handle index k of the reference run, both sides, for three fixed configurations (prefix: connected)"),
    ],
    floor=100,
    assumptions=["aioice/OpenSSL trusted; the OS scheduling of the decoder thread is not owned by the harness"],
)
