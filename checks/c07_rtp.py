"""C07 - RTP and RTCP packets round-trip with exact field semantics."""

from __future__ import annotations

from hypothesis import strategies as st

from aiortc import rtp as R
from aiortc.rtcrtpparameters import RTCRtpHeaderExtensionParameters, RTCRtpParameters
from vlib.runner import Check, Family, Outcome

U8 = st.integers(0, 255)
U16 = st.one_of(st.sampled_from([0, 1, 0x7FFF, 0x8000, 0xFFFE, 0xFFFF]), st.integers(0, 0xFFFF))
U32 = st.one_of(st.sampled_from([0, 1, 0x7FFFFFFF, 0x80000000, 0xFFFFFFFE, 0xFFFFFFFF]),
                st.integers(0, 0xFFFFFFFF))
U64 = st.one_of(st.sampled_from([0, 1, 2**63, 2**64 - 1]), st.integers(0, 2**64 - 1))

URIS = {
    "mid": "urn:ietf:params:rtp-hdrext:sdes:mid",
    "repaired_rtp_stream_id": "urn:ietf:params:rtp-hdrext:sdes:repaired-rtp-stream-id",
    "rtp_stream_id": "urn:ietf:params:rtp-hdrext:sdes:rtp-stream-id",
    "abs_send_time": "http://www.webrtc.org/experiments/rtp-hdrext/abs-send-time",
    "transmission_offset": "urn:ietf:params:rtp-hdrext:toffset",
    "audio_level": "urn:ietf:params:rtp-hdrext:ssrc-audio-level",
    "transport_sequence_number": "http://www.ietf.org/id/draft-holmer-rmcat-transport-wide-cc-extensions-01",
}
FIELDS = list(URIS)

ASCII = st.text(alphabet=st.characters(min_codepoint=0x21, max_codepoint=0x7E), min_size=0, max_size=40)


def utf8_text(max_bytes: int):
    return st.text(alphabet=st.characters(blacklist_categories=("Cs",)), max_size=max_bytes).filter(
        lambda s: len(s.encode("utf8")) <= max_bytes)


@st.composite
def ext_setup(draw):
    """(id map, values) - ids injective, 1..14 or 15..255."""
    chosen = draw(st.lists(st.sampled_from(FIELDS), unique=True, max_size=7))
    small = draw(st.booleans())
    pool = st.integers(1, 14) if small else st.integers(1, 255)
    ids = draw(st.lists(pool, min_size=len(chosen), max_size=len(chosen), unique=True))
    idmap = dict(zip(chosen, ids))
    values = {}
    for f in draw(st.lists(st.sampled_from(FIELDS), unique=True, max_size=7)):
        if f == "mid":
            values[f] = draw(st.one_of(utf8_text(16), utf8_text(255)))
        elif f in ("repaired_rtp_stream_id", "rtp_stream_id"):
            values[f] = draw(ASCII)
        elif f == "abs_send_time":
            values[f] = draw(st.one_of(st.sampled_from([0, 1, 0xFFFFFF, 0x800000]), st.integers(0, 0xFFFFFF)))
        elif f == "transmission_offset":
            values[f] = draw(st.one_of(st.sampled_from([0, 1, -1, 2**23 - 1, -(2**23), 255, 256, -256, 65536]),
                                       st.integers(-(2**23), 2**23 - 1)))
        elif f == "audio_level":
            values[f] = [draw(st.booleans()), draw(st.integers(0, 127))]
        else:
            values[f] = draw(U16)
    return {"ids": idmap, "values": values}


@st.composite
def rtp_case(draw, tier="quick"):
    return {
        "pt": draw(st.integers(0, 127)), "marker": draw(st.integers(0, 1)),
        "seq": draw(U16), "ts": draw(U32), "ssrc": draw(U32),
        "csrc": draw(st.lists(U32, max_size=15)),
        "payload": draw(st.binary(max_size=draw(st.sampled_from([0, 4, 40, 1400])))).hex(),
        "padding": draw(st.one_of(st.just(0), st.integers(0, 255))),
        "ext": draw(ext_setup()),
    }


def make_map(ids: dict) -> R.HeaderExtensionsMap:
    m = R.HeaderExtensionsMap()
    m.configure(RTCRtpParameters(headerExtensions=[
        RTCRtpHeaderExtensionParameters(id=i, uri=URIS[f]) for f, i in ids.items()]))
    return m


def make_ext(values: dict) -> R.HeaderExtensions:
    e = R.HeaderExtensions()
    for f, v in values.items():
        setattr(e, f, tuple(v) if f == "audio_level" else v)
    return e


def make_rtp(case: dict) -> R.RtpPacket:
    p = R.RtpPacket(payload_type=case["pt"], marker=case["marker"], sequence_number=case["seq"],
                    timestamp=case["ts"], ssrc=case["ssrc"], payload=bytes.fromhex(case["payload"]))
    p.csrc = list(case["csrc"])
    p.padding_size = case.get("padding", 0)
    p.extensions = make_ext(case["ext"]["values"])
    return p


def expected_ext(case: dict) -> R.HeaderExtensions:
    e = R.HeaderExtensions()
    for f, v in case["ext"]["values"].items():
        if f in case["ext"]["ids"]:
            setattr(e, f, tuple(v) if f == "audio_level" else v)
    return e


def cmp_rtp(a: R.RtpPacket, b: R.RtpPacket, ext) -> str | None:
    for f in ("version", "marker", "payload_type", "sequence_number", "timestamp", "ssrc", "csrc",
              "payload", "padding_size"):
        if getattr(a, f) != getattr(b, f):
            return f"{f}: built {getattr(a, f)!r:.120} parsed {getattr(b, f)!r:.120}"
    if b.extensions != ext:
        return f"extensions: expected {ext} parsed {b.extensions}"
    return None


def run_rtp(case: dict) -> Outcome:
    m = make_map(case["ext"]["ids"])
    p = make_rtp(case)
    exp = expected_ext(case)
    n_ext = sum(1 for f in FIELDS if getattr(exp, f) is not None)
    classes = []
    if n_ext:
        classes.append("ext")
        two = any(i > 14 for f, i in case["ext"]["ids"].items() if f in case["ext"]["values"]) or any(
            isinstance(getattr(exp, f), str) and not (1 <= len(getattr(exp, f).encode("utf8")) <= 16)
            for f in ("mid", "rtp_stream_id", "repaired_rtp_stream_id") if getattr(exp, f) is not None)
        classes.append("two-byte" if two else "one-byte")
        for f in FIELDS:
            if getattr(exp, f) is not None:
                classes.append("ext:" + f)
    if p.csrc:
        classes.append("csrc")
    if p.padding_size:
        classes.append("padding")
    nontrivial = bool(n_ext or p.csrc or p.padding_size)
    try:
        data = p.serialize(m)
    except Exception as exc:
        return Outcome(f"serialize raised {exc!r}", "serialize-raised:" + type(exc).__name__, nontrivial, tuple(classes))
    try:
        q = R.RtpPacket.parse(data, m)
    except Exception as exc:
        return Outcome(f"parse(serialize(p)) raised {exc!r}", "parse-raised:" + type(exc).__name__, nontrivial, tuple(classes))
    err = cmp_rtp(p, q, exp)
    if err:
        return Outcome(err, "rtp-field:" + err.split(":")[0], nontrivial, tuple(classes))
    return Outcome(None, None, nontrivial, tuple(classes))


# --- RTX -----------------------------------------------------------------------

@st.composite
def rtx_case(draw, tier="quick"):
    c = draw(rtp_case(tier))
    c["padding"] = 0
    c["rtx_pt"] = draw(st.integers(0, 127))
    c["rtx_seq"] = draw(U16)
    c["rtx_ssrc"] = draw(U32)
    # the retransmission may itself be padded (probing, padded retransmissions as browsers send them); the padding of an RTP
    # packet carries nothing, so the original's own padding is left out of the comparison
    c["rtx_padding"] = draw(st.sampled_from([0, 0, 1, 3, 4, 255]))
    return c


def run_rtx(case: dict) -> Outcome:
    m = make_map(case["ext"]["ids"])
    p = make_rtp(case)
    rtx = R.wrap_rtx(p, payload_type=case["rtx_pt"], sequence_number=case["rtx_seq"], ssrc=case["rtx_ssrc"])
    if (rtx.payload_type, rtx.sequence_number, rtx.ssrc) != (case["rtx_pt"], case["rtx_seq"], case["rtx_ssrc"]):
        return Outcome("RTX packet does not carry the RTX pt/seq/ssrc", "rtx-header", True)
    # over the wire
    try:
        rtx.padding_size = case.get("rtx_padding", 0)
        wire = R.RtpPacket.parse(rtx.serialize(m), m)
        back = R.unwrap_rtx(wire, payload_type=p.payload_type, ssrc=p.ssrc)
    except Exception as exc:
        return Outcome(f"rtx wire round trip raised {exc!r}", "rtx-raised:" + type(exc).__name__, True)
    back.padding_size = p.padding_size
    err = cmp_rtp(p, back, expected_ext(case))
    if err:
        return Outcome("unwrap(wrap(p)) != p: " + err, "rtx-field:" + err.split(":")[0], True)
    return Outcome(None, None, True, ("rtx", "rtx-padded") if case.get("rtx_padding") else ("rtx",))


# --- RTCP ------------------------------------------------------------------------

LOSS = st.one_of(st.sampled_from([0, -1, 1, 2**23 - 1, -(2**23)]), st.integers(-(2**23), 2**23 - 1))
RINFO = st.fixed_dictionaries({"ssrc": U32, "fraction_lost": U8, "packets_lost": LOSS,
                               "highest_sequence": U32, "jitter": U32, "lsr": U32, "dlsr": U32})


@st.composite
def nack_list(draw):
    mode = draw(st.sampled_from(["sorted", "wrap", "any", "dups"]))
    if mode == "sorted":
        return sorted(draw(st.lists(U16, max_size=40, unique=True)))
    if mode == "wrap":
        base = draw(st.integers(65500, 65535))
        offs = sorted(draw(st.lists(st.integers(0, 80), max_size=40, unique=True)))
        kind = draw(st.sampled_from(["serial", "numeric"]))
        vals = [(base + o) & 0xFFFF for o in offs]
        return vals if kind == "serial" else sorted(vals)
    if mode == "dups":
        return draw(st.lists(st.integers(0, 40).map(lambda x: (x + 65520) & 0xFFFF), max_size=40))
    return draw(st.lists(U16, max_size=40))


@st.composite
def rtcp_packet(draw):
    kind = draw(st.sampled_from(["sr", "rr", "sdes", "bye", "rtpfb", "psfb"]))
    if kind == "sr":
        return {"k": kind, "ssrc": draw(U32),
                "si": {"ntp_timestamp": draw(U64), "rtp_timestamp": draw(U32), "packet_count": draw(U32), "octet_count": draw(U32)},
                "reports": draw(st.lists(RINFO, max_size=31))}
    if kind == "rr":
        return {"k": kind, "ssrc": draw(U32), "reports": draw(st.lists(RINFO, max_size=31))}
    if kind == "sdes":
        item = st.tuples(st.integers(1, 255), st.binary(max_size=draw(st.sampled_from([0, 3, 20, 255]))).map(bytes.hex)).map(list)
        return {"k": kind, "chunks": draw(st.lists(st.fixed_dictionaries({"ssrc": U32, "items": st.lists(item, max_size=4)}), max_size=31))}
    if kind == "bye":
        return {"k": kind, "sources": draw(st.lists(U32, max_size=31))}
    if kind == "rtpfb":
        return {"k": kind, "fmt": draw(st.sampled_from([1, 1, 1, 0, 15, 31])), "ssrc": draw(U32), "media_ssrc": draw(U32),
                "lost": draw(nack_list())}
    fci_kind = draw(st.sampled_from(["pli", "fir", "remb", "raw"]))
    if fci_kind == "pli":
        fmt, fci = 1, ""
    elif fci_kind == "fir":
        fmt, fci = 4, draw(st.binary(min_size=8, max_size=8)).hex()
    elif fci_kind == "remb":
        fmt = 15
        fci = R.pack_remb_fci(draw(st.integers(0, 2**64 - 1)), draw(st.lists(U32, max_size=20))).hex()
    else:
        fmt = draw(st.integers(0, 31))
        fci = draw(st.binary(max_size=40).filter(lambda b: len(b) % 4 == 0)).hex()
    return {"k": kind, "fmt": fmt, "ssrc": draw(U32), "media_ssrc": draw(U32), "fci": fci}


def build_rtcp(d: dict):
    k = d["k"]
    if k == "sr":
        return R.RtcpSrPacket(ssrc=d["ssrc"], sender_info=R.RtcpSenderInfo(**d["si"]),
                              reports=[R.RtcpReceiverInfo(**r) for r in d["reports"]])
    if k == "rr":
        return R.RtcpRrPacket(ssrc=d["ssrc"], reports=[R.RtcpReceiverInfo(**r) for r in d["reports"]])
    if k == "sdes":
        return R.RtcpSdesPacket(chunks=[R.RtcpSourceInfo(ssrc=c["ssrc"], items=[(t, bytes.fromhex(v)) for t, v in c["items"]])
                                        for c in d["chunks"]])
    if k == "bye":
        return R.RtcpByePacket(sources=list(d["sources"]))
    if k == "rtpfb":
        return R.RtcpRtpfbPacket(fmt=d["fmt"], ssrc=d["ssrc"], media_ssrc=d["media_ssrc"], lost=list(d["lost"]))
    return R.RtcpPsfbPacket(fmt=d["fmt"], ssrc=d["ssrc"], media_ssrc=d["media_ssrc"], fci=bytes.fromhex(d["fci"]))


def strictly_ascending(xs: list) -> bool:
    return all(b > a for a, b in zip(xs, xs[1:]))


def run_rtcp(case: dict) -> Outcome:
    packets = [build_rtcp(d) for d in case["packets"]]
    classes = tuple(sorted({d["k"] for d in case["packets"]}))
    nt = len(packets) > 1 or any(
        (d["k"] in ("sr", "rr") and d["reports"]) or (d["k"] == "rtpfb" and d["lost"]) or
        (d["k"] == "sdes" and d["chunks"]) for d in case["packets"])
    try:
        data = b"".join(bytes(p) for p in packets)
    except Exception as exc:
        return Outcome(f"bytes(packet) raised {exc!r}", "rtcp-serialize-raised:" + type(exc).__name__, nt, classes)
    try:
        parsed = R.RtcpPacket.parse(data)
    except Exception as exc:
        return Outcome(f"RtcpPacket.parse raised {exc!r}", "rtcp-parse-raised:" + type(exc).__name__, nt, classes)
    if len(parsed) != len(packets):
        return Outcome(f"{len(packets)} packets built, {len(parsed)} parsed", "rtcp-count", nt, classes)
    for d, a, b in zip(case["packets"], packets, parsed):
        if type(a) is not type(b):
            return Outcome(f"type {type(a).__name__} -> {type(b).__name__}", "rtcp-type", nt, classes)
        if d["k"] == "rtpfb":
            want = {x & 0xFFFF for x in d["lost"]}
            if (a.fmt, a.ssrc, a.media_ssrc) != (b.fmt, b.ssrc, b.media_ssrc):
                return Outcome("rtpfb header differs", "rtcp-field", nt, classes)
            if any(not (0 <= x <= 0xFFFF) for x in b.lost):
                return Outcome(f"NACK parsed to out-of-range sequence numbers {[x for x in b.lost if not 0 <= x <= 0xFFFF][:5]}", "nack-range", nt, classes)
            if set(b.lost) != want:
                return Outcome(f"NACK set differs: sent {sorted(want)[:20]} parsed {sorted(set(b.lost))[:20]}", "nack-set", nt, classes)
            if strictly_ascending(d["lost"]) and b.lost != d["lost"]:
                return Outcome("ascending NACK list not reproduced exactly", "nack-list", nt, classes)
        elif a != b:
            return Outcome(f"{d['k']}: built {a!r:.200} parsed {b!r:.200}", "rtcp-field:" + d["k"], nt, classes)
    return Outcome(None, None, nt, classes)


# --- NACK raw FCI (parse direction) ------------------------------------------------

def run_nack_fci(case: dict) -> Outcome:
    entries = case["entries"]
    payload = R.pack("!LL", 1, 2) + b"".join(R.pack("!HH", pid, blp) for pid, blp in entries)
    data = R.pack_rtcp_packet(R.RTCP_RTPFB, 1, payload)
    want = set()
    for pid, blp in entries:
        want.add(pid)
        for i in range(16):
            if (blp >> i) & 1:
                want.add((pid + i + 1) % 65536)
    wraps = any(pid + i + 1 > 65535 for pid, blp in entries for i in range(16) if (blp >> i) & 1)
    try:
        (p,) = R.RtcpPacket.parse(data)
    except Exception as exc:
        return Outcome(f"parse raised {exc!r}", "nackfci-raised", True)
    if set(p.lost) != want:
        return Outcome(f"(pid, blp) {entries[:4]} denotes {sorted(want)[:20]} but parsed {sorted(set(p.lost))[:20]}",
                       "nack-fci-set", True, ("wrap",) if wraps else ())
    # and the set survives a re-serialisation by the library
    try:
        (q,) = R.RtcpPacket.parse(bytes(p))
    except Exception as exc:
        return Outcome(f"re-serialising a parsed NACK raised {exc!r}", "nackfci-reserialize-raised", True)
    if set(q.lost) != want:
        return Outcome("NACK set changed by parse/serialise/parse", "nack-fci-reserialize", True)
    return Outcome(None, None, True, ("wrap",) if wraps else ("nowrap",))


# --- loss clamp / REMB --------------------------------------------------------------

def run_loss(case: dict) -> Outcome:
    n = case["n"]
    c = R.clamp_packets_lost(n)
    if not (-(2**23) <= c <= 2**23 - 1):
        return Outcome(f"clamp({n}) = {c} outside 24-bit signed range", "clamp-range", True)
    if -(2**23) <= n <= 2**23 - 1 and c != n:
        return Outcome(f"clamp({n}) = {c} inside the range", "clamp-identity", True)
    if (n > 2**23 - 1 and c != 2**23 - 1) or (n < -(2**23) and c != -(2**23)):
        return Outcome(f"clamp({n}) = {c} does not saturate", "clamp-saturate", True)
    try:
        back = R.unpack_packets_lost(R.pack_packets_lost(c))
    except Exception as exc:
        return Outcome(f"pack/unpack_packets_lost({c}) raised {exc!r}", "loss-pack-raised", True)
    if back != c:
        return Outcome(f"packets_lost {c} -> {back}", "loss-roundtrip", True)
    return Outcome(None, None, True, ("outside" if c != n else "inside",))


def run_remb(case: dict) -> Outcome:
    b, ssrcs = case["bitrate"], case["ssrcs"]
    try:
        b2, s2 = R.unpack_remb_fci(R.pack_remb_fci(b, ssrcs))
    except Exception as exc:
        return Outcome(f"REMB round trip raised {exc!r}", "remb-raised", True)
    nt = b > 0x3FFFF
    if s2 != ssrcs:
        return Outcome("REMB SSRC list differs", "remb-ssrcs", nt)
    if b2 > b:
        return Outcome(f"REMB bitrate rounded up: {b} -> {b2}", "remb-up", nt)
    if b and (b - b2) * (1 << 17) >= b:
        return Outcome(f"REMB relative error too large: {b} -> {b2}", "remb-error", nt)
    if b == 0 and b2 != 0:
        return Outcome("REMB 0 not preserved", "remb-zero", nt)
    return Outcome(None, None, nt, ("exp>0",) if nt else ("exp=0",))


BITRATE = st.one_of(st.sampled_from([0, 1, 0x3FFFF, 0x40000, 0x40001, 2**32 - 1, 2**63, 2**64 - 1]),
                    st.integers(0, 2**64 - 1), st.integers(0, 2**24))


CHECK = Check(
    prop="C07",
    level="exploration",
    rule=(
        "Hypothesis builds RtpPacket values (wire-range header fields, 0-15 CSRC, padding 0-255, random injective "
        "header-extension id maps 1-14 / 1-255 over the seven URIs, values incl. one-/two-byte form flips), RTCP "
        "compound packets of 1-6 SR/RR/SDES/BYE/RTPFB/PSFB, NACK lists (sorted, serial order across the wrap, "
        "unsorted, duplicates), raw NACK (pid, blp) entries, loss counts over all integers, REMB bitrates < 2^64, "
        "RTX wrap/unwrap over the wire. Oracles: field-by-field equality after parse(serialize(x)); NACK set "
        "equality modulo 2^16 against a reference; clamp saturation; REMB never up and relative error < 2^-17. "
        "Non-trivial = packet has an extension, CSRC or padding / compound has a non-empty list or >1 packet / "
        "every NACK-FCI, loss and RTX case / REMB exponent > 0; distinct by SHA-1 of the case."
    ),
    families=[
        Family("rtp", run_rtp, lambda tier: rtp_case(tier), quick=8000, thorough=400000),
        Family("rtx", run_rtx, lambda tier: rtx_case(tier), quick=3000, thorough=100000),
        Family("rtcp", run_rtcp,
               lambda tier: st.fixed_dictionaries({"packets": st.lists(rtcp_packet(), min_size=1, max_size=6)}),
               quick=5000, thorough=250000),
        Family("nack-fci", run_nack_fci,
               lambda tier: st.fixed_dictionaries({"entries": st.lists(
                   st.tuples(st.one_of(U16, st.integers(65519, 65535)), U16).map(list), min_size=1, max_size=8)}),
               quick=3000, thorough=150000),
        Family("loss", run_loss,
               lambda tier: st.fixed_dictionaries({"n": st.one_of(
                   st.integers(-(2**40), 2**40), st.integers(-(2**23) - 3, -(2**23) + 3), st.integers(2**23 - 3, 2**23 + 3),
                   st.integers(-100, 100))}),
               quick=2000, thorough=50000),
        Family("remb", run_remb,
               lambda tier: st.fixed_dictionaries({"bitrate": BITRATE, "ssrcs": st.lists(U32, max_size=255)}),
               quick=3000, thorough=150000),
    ],
    floor=2000,
    assumptions=["padding bytes are random (os.urandom) and excluded from comparison; padding_size is compared"],
)
