"""C14 - signalling follows the JSEP state machine; illegal calls have no side
effects (DESIGN.md section 2/C14).  Programs over a pair of real peer
connections, compared step by step with a reference table."""

from __future__ import annotations

import asyncio
import re

from hypothesis import strategies as st

from aiortc import RTCSessionDescription
from aiortc.exceptions import InvalidStateError
from vlib import vloop
from vlib.pcsim import make_pc, run_pc_sim
from vlib.runner import Check, Family, Outcome

ACTIONS = ["createOffer", "createAnswer", "setLocalOffer", "setLocalAnswer", "setLocalImplicit", "setRemoteOffer", "setRemoteAnswer",
           "setRemoteMismatched", "setRemoteDefective", "setLocalStaleAnswer", "setLocalDefective", "close"]
DEFECTS = ["no-ufrag", "no-pwd", "no-rtcp-mux", "actpass-answer"]


@st.composite
def program_case(draw, tier="quick"):
    n = draw(st.integers(2, 12 if tier == "quick" else 25))
    steps = []
    if draw(st.booleans()):
        # get into the middle of an exchange first: that is where mismatched / defective answers are state-legal
        o = draw(st.integers(0, 1))
        steps += [{"peer": o, "action": "setLocalOffer", "defect": "no-ufrag", "mismatch": "rename-mid"},
                  {"peer": 1 - o, "action": "setRemoteOffer", "defect": "no-ufrag", "mismatch": "rename-mid"},
                  {"peer": 1 - o, "action": draw(st.sampled_from(["setLocalAnswer", "setLocalImplicit"])), "defect": "no-ufrag", "mismatch": "rename-mid"}]
        if draw(st.booleans()):
            steps.append({"peer": o, "action": draw(st.sampled_from(["setRemoteMismatched", "setRemoteDefective"])),
                          "defect": draw(st.sampled_from(DEFECTS)), "mismatch": draw(st.sampled_from(["drop-section", "rename-mid", "extra-section"]))})
    for _ in range(n):
        a = draw(st.sampled_from(ACTIONS + ["setLocalOffer", "setRemoteOffer", "setLocalAnswer", "setRemoteAnswer"]))
        if a == "close" and draw(st.integers(0, 2)) != 0:
            a = draw(st.sampled_from(ACTIONS[:-1]))
        steps.append({"peer": draw(st.integers(0, 1)), "action": a, "defect": draw(st.sampled_from(DEFECTS)),
                      "mismatch": draw(st.sampled_from(["drop-section", "rename-mid", "extra-section"]))})
    return {"steps": steps, "media": draw(st.sampled_from(["audio+dc", "video+dc", "audio", "dc"])),
            "yield_send": draw(st.sampled_from([False, False, False, True]))}


def make_defective(text: str, defect: str) -> str:
    if defect == "no-ufrag":
        return re.sub(r"a=ice-ufrag:[^\r\n]*\r\n", "", text)
    if defect == "no-pwd":
        return re.sub(r"a=ice-pwd:[^\r\n]*\r\n", "", text)
    if defect == "no-rtcp-mux":
        return text.replace("a=rtcp-mux\r\n", "")
    return re.sub(r"a=setup:(active|passive)", "a=setup:actpass", text)


def make_mismatched(text: str, how: str) -> str:
    head, *sections = re.split(r"(?=^m=)", text, flags=re.M)
    if how == "drop-section" and len(sections) >= 1:
        return head + "".join(sections[:-1]) if len(sections) > 1 else head + sections[0].replace("m=application", "m=audio").replace("m=audio", "m=video", 1)
    if how == "extra-section" and sections:
        extra = re.sub(r"a=mid:[^\r\n]*", "a=mid:zz9", sections[-1])
        return head + "".join(sections) + extra
    return re.sub(r"a=mid:([^\r\n]*)", lambda m: "a=mid:x" + m.group(1), text, count=1)


class Peer:
    def __init__(self, idx: int, media: str) -> None:
        self.idx = idx
        self.pc = make_pc("max-bundle")
        if "audio" in media:
            self.pc.addTransceiver("audio")
        if "video" in media:
            self.pc.addTransceiver("video")
        if "dc" in media:
            self.pc.createDataChannel("c14")
        self.sig_events = 0
        self.pc.on("signalingstatechange", self._on_sig)
        # model
        self.state = "stable"
        self.offer_seq = 0  # bumped whenever this peer successfully applies a local offer
        self.answered = None  # (peer offer_seq) the current local answer responds to
        self.created_offer = None
        self.created_answer = None

    def _on_sig(self) -> None:
        self.sig_events += 1

    def snapshot(self):
        ld, rd = self.pc.localDescription, self.pc.remoteDescription
        return (self.pc.signalingState, None if ld is None else (ld.type, ld.sdp), None if rd is None else (rd.type, rd.sdp), self.sig_events)


class Run:
    def __init__(self, case: dict) -> None:
        self.case = case
        self.problem = None
        self.classes: set = set()
        self.legal = 0
        self.illegal_after_legal = 0
        self.skipped = 0

    async def call(self, peer: Peer, what: str, coro_fn, expect: str, next_state=None, label: str = ""):
        """expect: 'ok' | 'InvalidStateError' | 'ValueError'."""
        before = peer.snapshot()
        err = None
        result = None
        try:
            result = await coro_fn()
        except InvalidStateError as exc:
            err = ("InvalidStateError", exc)
        except ValueError as exc:
            err = ("ValueError", exc)
        except Exception as exc:
            err = (type(exc).__name__, exc)
        after = peer.snapshot()
        got = "ok" if err is None else err[0]
        where = f"peer {peer.idx} {what}{label} in model state {peer.state}"
        if got != expect:
            self.problem = (f"outcome:{what}:{expect}->{got}", f"{where}: expected {expect}, got {got}" + (f" ({err[1]!r})" if err else ""))
            return None
        if err is not None:
            if after != before:
                diff = [n for n, (x, y) in zip(("signalingState", "localDescription", "remoteDescription", "signalingstatechange events"), zip(before, after)) if x != y]
                self.problem = (f"side-effect:{what}", f"{where} raised {got} but changed {diff}: signalingState {before[0]} -> {after[0]}")
                return None
            if self.legal:
                self.illegal_after_legal += 1
            self.classes.add("rejected:" + got)
        else:
            if next_state is not None:
                if peer.pc.signalingState != next_state:
                    self.problem = (f"state:{what}", f"{where}: signalingState is {peer.pc.signalingState}, the JSEP table says {next_state}")
                    return None
                peer.state = next_state
            if what.startswith("set"):
                self.legal += 1
        return result if err is None else None

    async def main(self, loop: vloop.VLoop) -> None:
        media = self.case.get("media", "audio+dc")
        peers = [Peer(0, media), Peer(1, media)]
        donors = [Peer(2, media), Peer(3, media)]
        try:
            # canned valid descriptions from an unrelated pair
            d_offer = await donors[0].pc.createOffer()
            await donors[0].pc.setLocalDescription(d_offer)
            await donors[1].pc.setRemoteDescription(donors[0].pc.localDescription)
            d_answer = await donors[1].pc.createAnswer()
            await donors[1].pc.setLocalDescription(d_answer)
            donor_offer, donor_answer = donors[0].pc.localDescription, donors[1].pc.localDescription
            for step in self.case.get("steps", []):
                if self.problem:
                    break
                if not isinstance(step, dict):
                    continue
                x = peers[step.get("peer", 0) % 2]
                y = peers[1 - x.idx]
                await self.step(x, y, step, donor_offer, donor_answer)
                # closed is absorbing
                for p in peers:
                    if p.state == "closed" and p.pc.signalingState != "closed":
                        self.problem = ("closed-not-absorbing", f"peer {p.idx} was closed but its signalingState is {p.pc.signalingState}")
        finally:
            for p in peers + donors:
                try:
                    await asyncio.wait_for(p.pc.close(), 30)
                except Exception:
                    pass

    async def step(self, x: Peer, y: Peer, step: dict, donor_offer, donor_answer) -> None:
        a = step.get("action")
        pc = x.pc
        closed = x.state == "closed"
        if a == "createOffer":
            r = await self.call(x, a, pc.createOffer, "InvalidStateError" if closed else "ok")
            if r is not None:
                x.created_offer = r
        elif a == "createAnswer":
            r = await self.call(x, a, pc.createAnswer, "ok" if x.state == "have-remote-offer" else "InvalidStateError")
            if r is not None:
                x.created_answer = r
        elif a == "setLocalOffer":
            if closed:
                await self.call(x, a, lambda: pc.setLocalDescription(donor_offer), "InvalidStateError")
                return
            try:
                offer = await pc.createOffer()
            except Exception as exc:
                self.problem = ("createOffer-raised", f"peer {x.idx} createOffer raised {exc!r} in state {x.state}")
                return
            if x.state in ("stable", "have-local-offer"):
                if await self.call(x, a, lambda: pc.setLocalDescription(offer), "ok", "have-local-offer") is None and not self.problem:
                    pass
                if not self.problem:
                    x.offer_seq += 1
            else:
                await self.call(x, a, lambda: pc.setLocalDescription(offer), "InvalidStateError")
        elif a == "setLocalAnswer":
            if x.state == "have-remote-offer":
                try:
                    answer = await pc.createAnswer()
                except Exception as exc:
                    self.problem = ("createAnswer-raised", f"peer {x.idx} createAnswer raised {exc!r}")
                    return
                await self.call(x, a, lambda: pc.setLocalDescription(answer), "ok", "stable")
                if not self.problem:
                    x.answered = (y.offer_seq, x.remote_offer_seq)
            else:
                await self.call(x, a, lambda: pc.setLocalDescription(donor_answer), "InvalidStateError")
        elif a == "setLocalStaleAnswer":
            # an answer without a pending remote offer
            if x.state != "have-remote-offer":
                d = x.created_answer or donor_answer
                await self.call(x, a, lambda: pc.setLocalDescription(d), "InvalidStateError")
            else:
                self.skipped += 1
        elif a == "setLocalDefective":
            # the connection's own offer / answer with a line taken out (an application that munges SDP): state-legal, so
            # the structural check is what has to refuse it - before anything changes
            if x.state in ("stable", "have-local-offer", "have-remote-offer"):
                try:
                    good = await (pc.createAnswer() if x.state == "have-remote-offer" else pc.createOffer())
                except Exception as exc:
                    self.problem = ("create-raised", f"peer {x.idx} createOffer/createAnswer raised {exc!r} in state {x.state}")
                    return
                bad = RTCSessionDescription(sdp=make_defective(good.sdp, step.get("defect", "no-ufrag")), type=good.type)
                if bad.sdp == good.sdp:
                    self.skipped += 1
                    return
                await self.call(x, a, lambda: pc.setLocalDescription(bad), "ValueError", label=f"[{step.get('defect')}]")
            else:
                self.skipped += 1
        elif a == "setLocalImplicit":
            if closed:
                await self.call(x, a, pc.setLocalDescription, "InvalidStateError")
            elif x.state == "have-remote-offer":
                await self.call(x, a, pc.setLocalDescription, "ok", "stable")
                if not self.problem:
                    x.answered = (y.offer_seq, x.remote_offer_seq)
            else:
                await self.call(x, a, pc.setLocalDescription, "ok", "have-local-offer")
                if not self.problem:
                    x.offer_seq += 1
        elif a == "setRemoteOffer":
            fresh = y.pc.localDescription if y.state == "have-local-offer" else None
            if x.state in ("stable", "have-remote-offer"):
                if fresh is None:
                    self.skipped += 1
                    return
                await self.call(x, a, lambda: pc.setRemoteDescription(fresh), "ok", "have-remote-offer")
                if not self.problem:
                    x.remote_offer_seq = y.offer_seq
            else:
                d = fresh or donor_offer
                await self.call(x, a, lambda: pc.setRemoteDescription(d), "InvalidStateError")
        elif a in ("setRemoteAnswer", "setRemoteMismatched", "setRemoteDefective"):
            # y's answer is usable when y is stable, its local description is an answer, and it answers x's current offer
            ld = y.pc.localDescription
            fresh = ld if (y.state == "stable" and ld is not None and ld.type == "answer" and y.answered is not None
                           and y.answered[1] == x.offer_seq) else None
            if x.state == "have-local-offer":
                if fresh is None:
                    if a == "setRemoteDefective" and step.get("defect") != "actpass-answer":
                        return await self.defective_offer(x, y, step)
                    self.skipped += 1
                    return
                if a == "setRemoteAnswer":
                    await self.call(x, a, lambda: pc.setRemoteDescription(fresh), "ok", "stable")
                elif a == "setRemoteMismatched":
                    bad = RTCSessionDescription(sdp=make_mismatched(fresh.sdp, step.get("mismatch", "rename-mid")), type="answer")
                    if bad.sdp == fresh.sdp:
                        self.skipped += 1
                        return
                    await self.call(x, a, lambda: pc.setRemoteDescription(bad), "ValueError", label=f"[{step.get('mismatch')}]")
                else:
                    bad = RTCSessionDescription(sdp=make_defective(fresh.sdp, step.get("defect", "no-ufrag")), type="answer")
                    if bad.sdp == fresh.sdp:
                        self.skipped += 1
                        return
                    await self.call(x, a, lambda: pc.setRemoteDescription(bad), "ValueError", label=f"[{step.get('defect')}]")
            else:
                if a == "setRemoteDefective" and step.get("defect") != "actpass-answer" and x.state in ("stable", "have-remote-offer"):
                    return await self.defective_offer(x, y, step)
                d = fresh or (ld if ld is not None and ld.type == "answer" else donor_answer)
                await self.call(x, "setRemoteAnswer", lambda: pc.setRemoteDescription(d), "InvalidStateError")
        elif a == "close":
            await self.call(x, a, pc.close, "ok", "closed")
            self.classes.add("close")

    async def defective_offer(self, x: Peer, y: Peer, step: dict) -> None:
        """A state-legal remote offer lacking ICE credentials or rtcp-mux."""
        if x.state not in ("stable", "have-remote-offer") or y.state != "have-local-offer":
            self.skipped += 1
            return
        good = y.pc.localDescription
        bad = RTCSessionDescription(sdp=make_defective(good.sdp, step.get("defect", "no-ufrag")), type="offer")
        if bad.sdp == good.sdp:
            self.skipped += 1
            return
        await self.call(x, "setRemoteDefectiveOffer", lambda: x.pc.setRemoteDescription(bad), "ValueError", label=f"[{step.get('defect')}]")


Peer.remote_offer_seq = None


def run_program(case: dict) -> Outcome:
    r = Run(case)
    try:
        run_pc_sim(r.main, max_iterations=2_000_000, yield_send=bool(case.get("yield_send")))
    except vloop.SimAbort as exc:
        return Outcome(f"simulation aborted: {exc!r}", "sim-abort:" + type(exc).__name__, True, tuple(sorted(r.classes)))
    nt = r.illegal_after_legal > 0
    r.classes.add(f"legal={min(r.legal, 6)}")
    if case.get("yield_send"):
        r.classes.add("yielding-send")
    cl = tuple(sorted(r.classes))
    if r.problem:
        return Outcome(r.problem[1], r.problem[0], nt, cl)
    return Outcome(None, None, nt, cl)


CHECK = Check(
    prop="C14",
    level="exploration",
    rule=(
        "Programs of 2-12 (quick) / 25 (thorough) calls over a pair of real peer connections (each with a transceiver and/or a "
        "data channel; an unrelated donor pair supplies canned valid descriptions): createOffer, createAnswer, "
        "setLocalDescription(offer | answer | implicit | answer without pending offer), setRemoteDescription(offer | answer | "
        "answer with an m-section removed/added or a mid renamed | offer or answer lacking ice-ufrag, ice-pwd, rtcp-mux or with "
        "setup:actpass in an answer), close - on either peer. A description handed to a state-legal call is fresh (the other "
        "peer's pending offer / the answer to this peer's current offer); otherwise the step is skipped. Reference table over "
        "{stable, have-local-offer, have-remote-offer, closed}: each call must succeed with the table's next state, or raise "
        "InvalidStateError (illegal in this state, anything after close) or ValueError (mismatched / defective); on any "
        "error signalingState, localDescription, remoteDescription are unchanged and no signalingstatechange fired; closed is "
        "absorbing. Non-trivial = an illegal call after at least one legal transition."
    ),
    families=[Family("programs", run_program, program_case, quick=1500, thorough=40000, min_shard=20)],
    floor=100,
    assumptions=["aioice gathering on loopback"],
)
