"""C09 - session descriptions survive parse/serialise round trips (DESIGN.md section 2/C09).

  objects     SessionDescription objects built field by field inside the lexical domain the library
              emits: str(parse(str(x))) == str(x) and every field is recovered
  texts       SDP texts (serialised objects and pc-generated descriptions under line-level mutations):
              if the parser accepts T then s1 = str(parse(T)) parses and str(parse(s1)) == s1
  candidates  candidate lines and RTCIceCandidate objects round-trip exactly, also through the
              signalling helpers
  pc          every offer/answer produced by real peer connections over the C03 configuration space
              is a fixed point and its fields match the connection's own state (see c03_negotiation)
"""

from __future__ import annotations

import json

from hypothesis import strategies as st

from aiortc import RTCIceCandidate, RTCSessionDescription
from aiortc import sdp as SDP
from aiortc.contrib.signaling import BYE, object_from_string, object_to_string
from aiortc.rtcdtlstransport import RTCDtlsFingerprint, RTCDtlsParameters
from aiortc.rtcicetransport import RTCIceParameters
from aiortc.rtcrtpparameters import RTCRtcpFeedback, RTCRtpCodecParameters, RTCRtpHeaderExtensionParameters
from aiortc.rtcsctptransport import RTCSctpCapabilities
from vlib.runner import Check, Family, Outcome

TOKEN_CHARS = "abcdefghijklmnopqrstuvwxyzABCDEFGHIJKLMNOPQRSTUVWXYZ0123456789+/_-."
token = st.text(alphabet=TOKEN_CHARS, min_size=1, max_size=12)
name_token = st.text(alphabet="abcdefghijklmnopqrstuvwxyzABCDEFGHIJKLMNOPQRSTUVWXYZ0123456789-", min_size=1, max_size=10)
U16 = st.integers(0, 65535)
U32 = st.integers(0, 2**32 - 1)
IP4 = st.tuples(*[st.integers(0, 255)] * 4).map(lambda t: ".".join(map(str, t)))
IP6 = st.sampled_from(["::1", "2001:db8::1", "fe80::1", "::", "2a02:a03f:3eb0:e000:b0aa:d60a:cff2:933c"])
IP = st.one_of(IP4, IP4, IP6)
PT = st.integers(0, 127).filter(lambda x: x not in range(72, 77))
URI = st.one_of(st.sampled_from([
    "urn:ietf:params:rtp-hdrext:sdes:mid", "urn:ietf:params:rtp-hdrext:ssrc-audio-level",
    "http://www.webrtc.org/experiments/rtp-hdrext/abs-send-time", "urn:ietf:params:rtp-hdrext:toffset", "urn:3gpp:video-orientation"]),
    token.map(lambda t: "urn:x:" + t))
FP_ALGOS = ["sha-256", "sha-384", "sha-512", "sha-1", "SHA-256"]


@st.composite
def fingerprint(draw):
    n = draw(st.sampled_from([20, 32, 48, 64]))
    return {"algorithm": draw(st.sampled_from(FP_ALGOS)), "value": ":".join("%02X" % b for b in draw(st.binary(min_size=n, max_size=n)))}


@st.composite
def candidate_spec(draw):
    typ = draw(st.sampled_from(["host", "srflx", "prflx", "relay"]))
    proto = draw(st.sampled_from(["udp", "tcp", "UDP", "TCP"]))
    c = {"foundation": draw(st.one_of(st.integers(0, 2**32 - 1).map(str), name_token)), "component": draw(st.integers(1, 2)),
         "protocol": proto, "priority": draw(st.one_of(U32, st.sampled_from([0, 1, 2130706431, 2**32 - 1]))), "ip": draw(IP),
         "port": draw(st.one_of(U16, st.sampled_from([0, 9, 65535]))), "type": typ,
         "relatedAddress": None, "relatedPort": None, "tcpType": None}
    if typ != "host" and draw(st.integers(0, 4)) != 0:
        c["relatedAddress"] = draw(st.one_of(IP, st.just("0.0.0.0")))
        c["relatedPort"] = draw(st.one_of(U16, st.sampled_from([0, 9])))
    elif draw(st.integers(0, 5)) == 0:
        c["relatedAddress"] = draw(IP)  # raddr without rport (and, below, the reverse) are kept field by field
    elif draw(st.integers(0, 8)) == 0:
        c["relatedPort"] = draw(U16)
    if proto.lower() == "tcp" and draw(st.booleans()):
        c["tcpType"] = draw(st.sampled_from(["active", "passive", "so"]))
    return c


def mk_candidate(c: dict) -> RTCIceCandidate:
    return RTCIceCandidate(component=c["component"], foundation=c["foundation"], ip=c["ip"], port=c["port"], priority=c["priority"],
                           protocol=c["protocol"], type=c["type"], relatedAddress=c.get("relatedAddress"),
                           relatedPort=c.get("relatedPort"), tcpType=c.get("tcpType"))


@st.composite
def codec_spec(draw, kind, pt):
    c = {"name": draw(st.sampled_from(["opus", "PCMU", "G722", "VP8", "H264", "rtx", "red", "x-cdc"])),
         "clockRate": draw(st.sampled_from([8000, 16000, 48000, 90000, 1, 2**31])), "pt": pt,
         "channels": draw(st.sampled_from([1, 2])) if kind == "audio" else None, "fb": [], "params": []}
    for _ in range(draw(st.integers(0, 3))):
        c["fb"].append([draw(st.sampled_from(["nack", "ccm", "goog-remb", "transport-cc", "x"])), draw(st.one_of(st.none(), st.sampled_from(["pli", "fir", "x y"])))])
    used = set()
    for _ in range(draw(st.integers(0, 4))):
        k = draw(st.one_of(st.sampled_from(SDP.FMTP_INT_PARAMETERS + ["profile-level-id", "packetization-mode", "level-asymmetry-allowed", "x-flag"]), name_token))
        if k in used:
            continue
        used.add(k)
        if k in SDP.FMTP_INT_PARAMETERS:
            v = draw(st.integers(0, 2**31))
        else:
            v = draw(st.one_of(st.none(), token, st.sampled_from(["42e01f", "1", "a=b"])))
        c["params"].append([k, v])
    return c


@st.composite
def media_spec(draw, idx, ice_lite):
    kind = draw(st.sampled_from(["audio", "video", "application"]))
    m = {"kind": kind, "port": draw(st.one_of(st.sampled_from([0, 9]), U16)), "host": draw(st.one_of(st.none(), IP)),
         "mid": draw(st.one_of(st.just(str(idx)), name_token, st.none())), "ice": {"ufrag": draw(st.one_of(st.none(), token)), "pwd": draw(st.one_of(st.none(), token)), "lite": ice_lite},
         "ice_options": draw(st.one_of(st.none(), st.sampled_from(["trickle", "ice2 trickle"]))),
         "candidates": draw(st.lists(candidate_spec(), max_size=3)), "complete": draw(st.booleans()),
         "dtls": None}
    if draw(st.integers(0, 5)) != 0:
        m["dtls"] = {"fingerprints": draw(st.lists(fingerprint(), max_size=3)), "role": draw(st.sampled_from(["auto", "client", "server"]))}
    if kind == "application":
        legacy = draw(st.booleans())
        if legacy:
            port = draw(st.sampled_from([5000, 1, 65535]))
            m.update(profile="DTLS/SCTP", fmt=[str(port)], sctpmap=[[port, draw(st.sampled_from(["webrtc-datachannel 65535", "webrtc-datachannel 256", "webrtc-datachannel"]))]],
                     sctp_port=None)
        else:
            m.update(profile="UDP/DTLS/SCTP", fmt=["webrtc-datachannel"], sctpmap=[], sctp_port=draw(st.sampled_from([5000, 1, 65535])))
        m["max_message_size"] = draw(st.one_of(st.none(), st.sampled_from([0, 65536, 262144, 2**31])))
        return m
    pts = draw(st.lists(PT, min_size=1, max_size=5, unique=True))
    fmt = list(pts)
    if draw(st.integers(0, 3)) == 0:
        # the m= line is its own field: it may list the payload types in another order than the rtpmap lines, and static
        # payload types that have no rtpmap line at all
        fmt = list(draw(st.permutations(fmt)))
        for extra in draw(st.lists(st.sampled_from([0, 8, 9, 13, 34]), max_size=2, unique=True)):
            if extra not in fmt:
                fmt.insert(draw(st.integers(0, len(fmt))), extra)
    m.update(profile=draw(st.sampled_from(["UDP/TLS/RTP/SAVPF", "RTP/SAVPF", "RTP/AVP"])), fmt=fmt,
             codecs=[draw(codec_spec(kind, pt)) for pt in pts],
             direction=draw(st.one_of(st.none(), st.sampled_from(SDP.DIRECTIONS))),
             msid=draw(st.one_of(st.none(), st.tuples(name_token, name_token).map(" ".join), name_token)),
             ext=[[i, u] for i, u in zip(draw(st.lists(st.integers(1, 255), max_size=4, unique=True)), draw(st.lists(URI, min_size=4, max_size=4)))],
             rtcp=None, ssrc=[], ssrc_group=[])
    if draw(st.booleans()):
        m["rtcp"] = {"port": draw(st.sampled_from([9, 0, 50000])), "host": draw(st.one_of(st.none(), IP)), "mux": draw(st.booleans())}
    ssrcs = draw(st.lists(U32, max_size=3, unique=True))
    for s in ssrcs:
        m["ssrc"].append({"ssrc": s, "cname": draw(st.one_of(token, st.just("{a-b}"))), "msid": draw(st.one_of(st.none(), st.just("s1 t1"), token)),
                          "mslabel": draw(st.one_of(st.none(), token)), "label": draw(st.one_of(st.none(), token))})
    if len(ssrcs) >= 2 and draw(st.booleans()):
        m["ssrc_group"].append(["FID", ssrcs[:2]])
    return m


@st.composite
def session_spec(draw, tier="quick"):
    n = draw(st.integers(1, 4))
    lite = draw(st.integers(0, 5)) == 0
    media = [draw(media_spec(i, lite)) for i in range(n)]
    mids = [m["mid"] for m in media if m["mid"]]
    s = {"origin": "- %d %d IN IP4 0.0.0.0" % (draw(U32), draw(st.integers(0, 9))), "name": draw(st.sampled_from(["-", "x", "my session"])),
         "time": "0 0", "host": draw(st.one_of(st.none(), IP)), "media": media, "group": [], "msid_semantic": []}
    if mids and draw(st.booleans()):
        s["group"].append(["BUNDLE", draw(st.lists(st.sampled_from(mids), min_size=1, max_size=len(mids), unique=True))])
    if draw(st.booleans()):
        s["msid_semantic"].append(["WMS", draw(st.one_of(st.just(["*"]), st.lists(name_token, max_size=2)))])
    return s


def build_session(s: dict) -> SDP.SessionDescription:
    d = SDP.SessionDescription()
    d.origin, d.name, d.time, d.host = s["origin"], s["name"], s["time"], s["host"]
    for sem, items in s["group"]:
        d.group.append(SDP.GroupDescription(semantic=sem, items=list(items)))
    for sem, items in s["msid_semantic"]:
        d.msid_semantic.append(SDP.GroupDescription(semantic=sem, items=list(items)))
    for m in s["media"]:
        md = SDP.MediaDescription(kind=m["kind"], port=m["port"], profile=m["profile"], fmt=list(m["fmt"]))
        md.host = m["host"]
        md.rtp.muxId = m["mid"] or ""
        md.ice = RTCIceParameters(usernameFragment=m["ice"]["ufrag"], password=m["ice"]["pwd"], iceLite=m["ice"]["lite"])
        md.ice_options = m["ice_options"]
        md.ice_candidates = [mk_candidate(c) for c in m["candidates"]]
        md.ice_candidates_complete = m["complete"]
        if m["dtls"] is not None:
            md.dtls = RTCDtlsParameters(fingerprints=[RTCDtlsFingerprint(**f) for f in m["dtls"]["fingerprints"]], role=m["dtls"]["role"])
        if m["kind"] == "application":
            md.sctpmap = {int(k): v for k, v in m["sctpmap"]}
            md.sctp_port = m["sctp_port"]
            if m["max_message_size"] is not None:
                md.sctpCapabilities = RTCSctpCapabilities(maxMessageSize=m["max_message_size"])
        else:
            md.direction = m["direction"]
            md.msid = m["msid"]
            md.rtp.headerExtensions = [RTCRtpHeaderExtensionParameters(id=i, uri=u) for i, u in m["ext"]]
            if m["rtcp"]:
                md.rtcp_port, md.rtcp_host, md.rtcp_mux = m["rtcp"]["port"], m["rtcp"]["host"], m["rtcp"]["mux"]
            md.ssrc = [SDP.SsrcDescription(**x) for x in m["ssrc"]]
            md.ssrc_group = [SDP.GroupDescription(semantic=sem, items=list(items)) for sem, items in m["ssrc_group"]]
            for c in m["codecs"]:
                md.rtp.codecs.append(RTCRtpCodecParameters(
                    mimeType=f"{m['kind']}/{c['name']}", clockRate=c["clockRate"], channels=c["channels"], payloadType=c["pt"],
                    rtcpFeedback=[RTCRtcpFeedback(type=t, parameter=p) for t, p in c["fb"]], parameters={k: v for k, v in c["params"]}))
        d.media.append(md)
    return d


def fields(d: SDP.SessionDescription) -> dict:
    out = {"origin": d.origin, "name": d.name, "time": d.time, "host": d.host, "version": d.version,
           "group": [(g.semantic, list(g.items)) for g in d.group], "msid_semantic": [(g.semantic, list(g.items)) for g in d.msid_semantic],
           "media": []}
    for m in d.media:
        md = {"kind": m.kind, "port": m.port, "profile": m.profile, "fmt": list(m.fmt), "host": m.host, "mid": m.rtp.muxId or None,
              "direction": m.direction, "msid": m.msid,
              "rtcp": (m.rtcp_port, m.rtcp_host, m.rtcp_mux if m.rtcp_port is not None else None),
              "ext": [(h.id, h.uri) for h in m.rtp.headerExtensions],
              "ssrc": [(x.ssrc, x.cname, x.msid, x.mslabel, x.label) for x in m.ssrc],
              "ssrc_group": [(g.semantic, list(g.items)) for g in m.ssrc_group],
              "codecs": [(c.mimeType, c.clockRate, c.channels, c.payloadType, [(f.type, f.parameter) for f in c.rtcpFeedback],
                          list(c.parameters.items())) for c in m.rtp.codecs],
              "sctpmap": sorted(m.sctpmap.items()), "sctp_port": m.sctp_port,
              "max_message_size": None if m.sctpCapabilities is None else m.sctpCapabilities.maxMessageSize,
              "ice": (m.ice.usernameFragment, m.ice.password, m.ice.iceLite), "ice_options": m.ice_options,
              "candidates": [SDP.candidate_to_sdp(c) for c in m.ice_candidates], "complete": m.ice_candidates_complete,
              "dtls": None if m.dtls is None else ([(f.algorithm, f.value) for f in m.dtls.fingerprints], m.dtls.role)}
        out["media"].append(md)
    return out


def first_diff(a, b, path="") -> str:
    if isinstance(a, dict) and isinstance(b, dict):
        for k in a:
            if a[k] != b.get(k):
                return first_diff(a[k], b.get(k), f"{path}.{k}")
    if isinstance(a, (list, tuple)) and isinstance(b, (list, tuple)) and len(a) == len(b):
        for i, (x, y) in enumerate(zip(a, b)):
            if x != y:
                return first_diff(x, y, f"{path}[{i}]")
    return f"{path}: put in {a!r:.150}, parsed back {b!r:.150}"


def run_object(case: dict) -> Outcome:
    try:
        d = build_session(case)
        text = str(d)
    except Exception as exc:
        return Outcome(f"building/serialising the description raised {exc!r}", "object-serialise-raised:" + type(exc).__name__, True)
    classes = [f"media={len(d.media)}"]
    try:
        back = SDP.SessionDescription.parse(text)
    except Exception as exc:
        return Outcome(f"the library's own output does not parse: {exc!r}", "object-parse-raised:" + type(exc).__name__, True, tuple(classes))
    text2 = str(back)
    if text2 != text:
        a, b = text.splitlines(), text2.splitlines()
        k = next((i for i, (x, y) in enumerate(zip(a, b)) if x != y), min(len(a), len(b)))
        return Outcome(f"not a fixed point: line {k}: {a[k] if k < len(a) else None!r} became {b[k] if k < len(b) else None!r}",
                       "object-not-fixed-point", True, tuple(classes))
    fa, fb = fields(d), fields(back)
    if fa != fb:
        return Outcome("field not recovered " + first_diff(fa, fb), "object-field-lost", True, tuple(classes))
    nt = len(d.media) > 1 or any(c["params"] and c["fb"] for m in case["media"] for c in m.get("codecs", [])) or \
        any(c.get("relatedAddress") for m in case["media"] for c in m["candidates"])
    return Outcome(None, None, nt, tuple(classes))


# --------------------------------------------------------------------------
# texts under line mutations

CHROME_EXTRA = ["a=msid-semantic: WMS *", "a=extmap-allow-mixed", "a=rtcp-rsize", "a=bundle-only", "a=ice-options:trickle", "a=foo:bar", "b=AS:500",
                "a=rtcp-fb:* nack", "a=rtcp-fb:* ccm fir", "a=extmap:3/sendonly urn:x:dir", "a=candidate:1 1 udp 1 10.0.0.1 5 typ host generation 0 network-id 1",
                "a=ssrc:1234 foo:bar", "a=inactive", "a=sendrecv", "a=setup:actpass", "a=setup:active", "a=fingerprint:sha-256 AA:BB",
                "a=ice-ufrag:zz", "a=ice-pwd:yy", "a=mid:zz", "a=end-of-candidates", "a=rtcp-mux", "a=rtcp:9", "a=max-message-size:100",
                "a=sctp-port:5001", "a=group:BUNDLE a b", "a=ice-lite", "c=IN IP4 1.2.3.4", "a=msid:s t"]


def _samples() -> list:
    import json as _json
    from pathlib import Path

    path = Path(__file__).resolve().parent / "data" / "sdp_samples.json"
    return _json.loads(path.read_text()) if path.exists() else []


SAMPLES = _samples()  # browser / gateway descriptions (Chrome, Firefox, Safari, FreeSWITCH ...) as found in the repository's tests


@st.composite
def text_case(draw, tier="quick"):
    if SAMPLES and draw(st.integers(0, 2)) == 0:
        text = draw(st.sampled_from(SAMPLES)).replace("\r\n", "\n").replace("\n", "\r\n")
    else:
        spec = draw(session_spec(tier))
        text = str(build_session(spec))
    lines = text.split("\r\n")[:-1]
    ops = []
    for _ in range(draw(st.integers(0, 6))):
        kind = draw(st.sampled_from(["del", "dup", "swap", "insert", "insert", "tosession", "move"]))
        ops.append([kind, draw(st.integers(0, 1000)), draw(st.integers(0, 1000)), draw(st.sampled_from(CHROME_EXTRA))])
    for kind, i, j, extra in ops:
        n = len(lines)
        if n < 3:
            break
        i, j = 1 + i % (n - 1), 1 + j % (n - 1)
        if kind == "del":
            del lines[i]
        elif kind == "dup":
            lines.insert(j, lines[i])
        elif kind == "swap":
            lines[i], lines[j] = lines[j], lines[i]
        elif kind == "insert":
            lines.insert(i, extra)
        elif kind == "move":
            lines.insert(j, lines.pop(i))
        elif kind == "tosession":
            # move a media-level attribute to the session part
            first_m = next((k for k, l in enumerate(lines) if l.startswith("m=")), None)
            if first_m is not None and i > first_m and lines[i].startswith("a="):
                lines.insert(first_m, lines.pop(i))
    eol = draw(st.sampled_from(["\r\n", "\r\n", "\n"]))
    return {"text": eol.join(lines) + eol}


def run_text(case: dict) -> Outcome:
    text = case["text"]
    try:
        d = SDP.SessionDescription.parse(text)
    except Exception:
        return Outcome(None, None, False, ("rejected",))
    # what serialisation cannot print is outside the statement (undefined, not non-idempotent): hosts that are not literals
    try:
        s1 = str(d)
    except Exception as exc:
        if isinstance(exc, ValueError) and "does not appear to be an IPv4 or IPv6 address" in str(exc):
            return Outcome(None, None, False, ("accepted", "unprintable-host"))
        if isinstance(exc, AttributeError) and "'NoneType' object has no attribute" in str(exc):
            return Outcome(None, None, False, ("accepted", "incomplete"))
        return Outcome(f"an accepted text cannot be serialised: {exc!r}", "text-serialise-raised:" + type(exc).__name__, True, ("accepted",))
    try:
        d2 = SDP.SessionDescription.parse(s1)
        s2 = str(d2)
    except Exception as exc:
        return Outcome(f"the serialisation of an accepted text does not parse/serialise again: {exc!r}", "text-reparse-raised:" + type(exc).__name__,
                       True, ("accepted",))
    if s1 != s2:
        a, b = s1.splitlines(), s2.splitlines()
        k = next((i for i, (x, y) in enumerate(zip(a, b)) if x != y), min(len(a), len(b)))
        return Outcome(f"parse-and-serialise is not idempotent: line {k}: {a[k] if k < len(a) else None!r} then {b[k] if k < len(b) else None!r} "
                       f"({len(a)} lines then {len(b)})", "text-not-idempotent", True, ("accepted",))
    return Outcome(None, None, len(d.media) > 1, ("accepted",))


# --------------------------------------------------------------------------
# candidate lines and signalling objects


def run_candidate(case: dict) -> Outcome:
    c = mk_candidate(case["cand"])
    try:
        line = SDP.candidate_to_sdp(c)
        back = SDP.candidate_from_sdp(line)
    except Exception as exc:
        return Outcome(f"candidate round trip raised {exc!r}", "candidate-raised:" + type(exc).__name__, True)
    if back != c:
        return Outcome(f"candidate object not recovered from {line!r}: {back}", "candidate-object", True)
    if SDP.candidate_to_sdp(back) != line:
        return Outcome(f"candidate line changed: {line!r} -> {SDP.candidate_to_sdp(back)!r}", "candidate-line", True)
    # through the signalling helper
    c.sdpMid, c.sdpMLineIndex = case.get("mid"), case.get("index")
    try:
        msg = object_to_string(c)
        again = object_from_string(msg)
    except Exception as exc:
        return Outcome(f"signalling round trip of a candidate raised {exc!r}", "signalling-raised:" + type(exc).__name__, True)
    if again != c:
        return Outcome(f"signalling helper changed the candidate: {c} -> {again}", "signalling-candidate", True)
    d = RTCSessionDescription(sdp=case.get("sdp", "v=0\r\n"), type=case.get("type", "offer"))
    d2 = object_from_string(object_to_string(d))
    if (d2.sdp, d2.type) != (d.sdp, d.type) or object_from_string(object_to_string(BYE)) is not BYE:
        return Outcome("signalling helper changed a session description / bye", "signalling-description", True)
    nt = bool(case["cand"].get("relatedAddress")) or bool(case["cand"].get("tcpType"))
    return Outcome(None, None, nt, (case["cand"]["type"], case["cand"]["protocol"].lower()))


candidate_case = st.fixed_dictionaries({"cand": candidate_spec(), "mid": st.one_of(st.none(), name_token), "index": st.one_of(st.none(), st.integers(0, 5)),
                                        "sdp": st.sampled_from(["v=0\r\n", "v=0\r\ns=é\r\n", ""]), "type": st.sampled_from(["offer", "answer"])})


def pc_family():
    try:
        from checks.c03_negotiation import sdp_family
    except Exception:
        return []
    return [sdp_family()]


CHECK = Check(
    prop="C09",
    level="exploration",
    rule=(
        "objects: SessionDescription/MediaDescription objects built field by field (1-4 audio/video/application sections; "
        "IPv4/IPv6 literals; codecs with int-typed, string and valueless fmtp parameters and feedback with/without parameter; "
        "extmaps; 0-3 SSRCs with cname/msid/mslabel/label; FID groups; 0-3 candidates of every type with/without "
        "raddr/rport/tcptype; 0-3 fingerprints; setup roles; legacy sctpmap and modern sctp-port; max-message-size; BUNDLE and WMS "
        "groups; ice-lite) - the serialisation must parse, serialise back to the same text and give back every field. texts: "
        "those serialisations under 1-6 line mutations (delete, duplicate, swap, move, move a media attribute to session level, "
        "insert Chrome/Firefox-style lines such as a=rtcp-fb:*, extmap with /direction, candidate extensions, unknown "
        "attributes; CRLF or LF) - whenever parse accepts, one round of parse-and-serialise must be idempotent. candidates: "
        "RTCIceCandidate objects and lines round-trip exactly, also through the signalling helper. pc: every createOffer / "
        "createAnswer result over the C03 configuration space is a fixed point and matches the connection's own state. "
        "Non-trivial = more than one m-section, or a codec with parameters and feedback, or a candidate with related address."
    ),
    families=[
        Family("objects", run_object, session_spec, quick=4000, thorough=150000, min_shard=100),
        Family("texts", run_text, text_case, quick=5000, thorough=300000, min_shard=100),
        Family("candidates", run_candidate, lambda tier: candidate_case, quick=4000, thorough=100000, min_shard=200),
    ] + pc_family(),
    floor=500,
    assumptions=["generated field values stay inside the lexical domain the library itself emits (token characters, address literals)"],
)
