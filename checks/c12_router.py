"""C12 - bundled RTP/RTCP routing.  Histories of register / unregister / route
operations against an independent routing-table model."""

from __future__ import annotations

from hypothesis import strategies as st

from aiortc import rtp as R
from aiortc.rtcdtlstransport import RtpRouter
from vlib.runner import Check, Family, Outcome

SSRCS = [1000, 1001, 1100, 1101, 1200, 1201, 1300, 1301, 3000, 0, 0xFFFFFFFF]


def own_ssrcs(i: int):
    """mostly per-receiver SSRCs (real sessions have unique SSRCs), sometimes shared ones"""
    own = st.sampled_from([1000 + 100 * i, 1001 + 100 * i])
    return st.lists(st.one_of(own, own, own, own, st.sampled_from(SSRCS)), max_size=3, unique=True)
PTS = [96, 97, 98, 100, 111, 0]
N_RECV, N_SEND = 4, 3
SENDER_SSRC = [5000, 5001, 5002]

ssrc_s = st.sampled_from(SSRCS + SENDER_SSRC)
pt_s = st.sampled_from(PTS)


@st.composite
def op(draw):
    k = draw(st.sampled_from(["reg_r", "reg_r", "unreg_r", "reg_s", "unreg_s", "rtp", "rtp", "rtp", "rtcp", "rtcp"]))
    if k == "reg_r":
        i = draw(st.integers(0, N_RECV - 1))
        return [k, i, draw(own_ssrcs(i)),
                draw(st.lists(pt_s, max_size=3, unique=True)), draw(st.sampled_from([None, "0", "1"]))]
    if k in ("unreg_r",):
        return [k, draw(st.integers(0, N_RECV - 1))]
    if k in ("reg_s", "unreg_s"):
        return [k, draw(st.integers(0, N_SEND - 1))]
    if k == "rtp":
        return [k, draw(ssrc_s), draw(st.one_of(pt_s, st.integers(0, 127)))]
    kind = draw(st.sampled_from(["sr", "rr", "bye", "sdes", "nack", "pli", "remb", "remb-bad"]))
    if kind in ("sr", "rr"):
        return [k, kind, draw(ssrc_s), draw(st.lists(ssrc_s, max_size=4))]
    if kind == "bye":
        return [k, kind, draw(st.lists(ssrc_s, max_size=4))]
    if kind == "sdes":
        return [k, kind, draw(st.lists(ssrc_s, max_size=3))]
    if kind in ("nack", "pli"):
        return [k, kind, draw(ssrc_s)]
    return [k, kind, draw(st.sampled_from([0, 5000, 1000])),
            draw(st.lists(st.one_of(st.sampled_from(SENDER_SSRC), ssrc_s), max_size=4))]


@st.composite
def history(draw, tier="quick"):
    setup = []
    for i in draw(st.permutations(list(range(N_RECV))))[: draw(st.integers(1, N_RECV))]:
        setup.append(["reg_r", i, draw(own_ssrcs(i)),
                      draw(st.lists(pt_s, min_size=1, max_size=2, unique=True)), None])
    for i in range(draw(st.integers(0, N_SEND))):
        setup.append(["reg_s", i])
    ops = draw(st.lists(op(), min_size=8, max_size=40 if tier == "quick" else 80))
    return {"ops": setup + ops}


class Obj:
    def __init__(self, name: str) -> None:
        self.name = name

    def __repr__(self) -> str:
        return self.name


def rinfo(ssrc: int) -> R.RtcpReceiverInfo:
    return R.RtcpReceiverInfo(ssrc=ssrc, fraction_lost=0, packets_lost=0, highest_sequence=0, jitter=0, lsr=0, dlsr=0)


class RouterBackend:
    """The routing table itself."""

    def __init__(self) -> None:
        self.router = RtpRouter()
        self.recv = [Obj(f"R{i}") for i in range(N_RECV)]
        self.send = [Obj(f"S{i}") for i in range(N_SEND)]

    async def register_receiver(self, i, ssrcs, pts, mid):
        self.router.register_receiver(self.recv[i], ssrcs=list(ssrcs), payload_types=list(pts), mid=mid)

    async def unregister_receiver(self, i):
        self.router.unregister_receiver(self.recv[i])

    async def register_sender(self, i):
        self.router.register_sender(self.send[i], ssrc=SENDER_SSRC[i])

    async def unregister_sender(self, i):
        self.router.unregister_sender(self.send[i])

    async def route_rtp(self, pkt):
        return self.router.route_rtp(pkt)

    async def route_rtcp(self, pkt):
        return self.router.route_rtcp(pkt)


class Recorder(Obj):
    """A receiver / sender as the DTLS transport sees it: records what it is handed."""

    def __init__(self, name: str, ssrc: int = 0) -> None:
        super().__init__(name)
        self._ssrc = ssrc
        self.got: list = []

    async def _handle_rtp_packet(self, packet, arrival_time_ms):
        self.got.append(("rtp", packet))

    async def _handle_rtcp_packet(self, packet):
        self.got.append(("rtcp", packet))

    def _handle_disconnect(self) -> None:
        pass


class TransportBackend:
    """The same operations through a real RTCDtlsTransport: registration via _register_rtp_receiver/_sender with real
    parameter objects, routing via _handle_rtp_data/_handle_rtcp_data on serialised packets."""

    def __init__(self) -> None:
        from aiortc.rtcdtlstransport import RTCDtlsTransport
        from checks.c04_dtls import certs

        class Ice:
            role = "controlling"

        self.t = RTCDtlsTransport(Ice(), [certs()[0]])
        self.recv = [Recorder(f"R{i}") for i in range(N_RECV)]
        self.send = [Recorder(f"S{i}", SENDER_SSRC[i]) for i in range(N_SEND)]

    async def register_receiver(self, i, ssrcs, pts, mid):
        from aiortc.rtcrtpparameters import RTCRtpCodecParameters, RTCRtpDecodingParameters, RTCRtpReceiveParameters

        params = RTCRtpReceiveParameters(
            codecs=[RTCRtpCodecParameters(mimeType="video/x", clockRate=90000, payloadType=pt) for pt in pts],
            encodings=[RTCRtpDecodingParameters(ssrc=s, payloadType=(list(pts) or [0])[0]) for s in ssrcs], muxId=mid or "")
        self.t._register_rtp_receiver(self.recv[i], params)

    async def unregister_receiver(self, i):
        self.t._unregister_rtp_receiver(self.recv[i])

    async def register_sender(self, i):
        from aiortc.rtcrtpparameters import RTCRtpSendParameters

        self.t._register_rtp_sender(self.send[i], RTCRtpSendParameters())

    async def unregister_sender(self, i):
        self.t._unregister_rtp_sender(self.send[i])

    def _collect(self, kind: str):
        out = []
        for o in self.recv + self.send:
            n = sum(1 for k, _ in o.got if k == kind)
            if n:
                out.append((o, n))
            o.got.clear()
        return out

    async def route_rtp(self, pkt):
        await self.t._handle_rtp_data(pkt.serialize(), arrival_time_ms=0)
        hit = self._collect("rtp")
        if len(hit) > 1 or any(n > 1 for _, n in hit):
            raise AssertionError(f"one RTP packet was handed to {hit}")
        return hit[0][0] if hit else None

    async def route_rtcp(self, pkt):
        await self.t._handle_rtcp_data(bytes(pkt))
        hit = self._collect("rtcp")
        if any(n > 1 for _, n in hit):
            raise AssertionError(f"one RTCP packet was handed over more than once: {hit}")
        return {o for o, _ in hit}


def run_history(case: dict) -> Outcome:
    import asyncio

    return asyncio.run(_history(case, RouterBackend()))


def run_history_transport(case: dict) -> Outcome:
    import asyncio

    return asyncio.run(_history(case, TransportBackend()))


async def _history(case: dict, router) -> Outcome:
    recv, send = router.recv, router.send
    # model
    registered: set = set()
    accept = {i: set() for i in range(N_RECV)}
    claims: dict = {}  # ssrc -> list of receiver indices (explicit or latched), in claim order
    senders: dict = {}  # ssrc -> sender index
    classes = set()
    latched: set = set()
    # SSRCs that ever had two simultaneous explicit claimants: the statement does not
    # say who owns them afterwards, so the model only demands "a registered receiver
    # that accepts the payload type, or nobody" for these (DESIGN.md section 6).
    tainted: set = set()
    for step, o in enumerate(case["ops"]):
        k = o[0]
        try:
            if k == "reg_r":
                _, i, ssrcs, pts, mid = o
                i %= N_RECV
                await router.register_receiver(i, ssrcs, pts, mid)
                registered.add(i)
                accept[i] |= set(pts)
                for s in ssrcs:
                    if s in latched and claims.get(s) not in (None, [i]):
                        # an SSRC that had merely stuck to a receiver by payload type is now registered by another one:
                        # "the one registered for its SSRC" is the registrant
                        claims[s] = []
                        classes.add("latch-then-registered-elsewhere")
                    latched.discard(s)
                    lst = claims.setdefault(s, [])
                    if i not in lst:
                        lst.append(i)
                    if len(lst) > 1:
                        classes.add("overlapping-ssrc")
                        tainted.add(s)
                if any(len([j for j in registered if p in accept[j]]) > 1 for p in pts):
                    classes.add("overlapping-pt")
            elif k == "unreg_r":
                i = o[1] % N_RECV
                await router.unregister_receiver(i)
                if i in registered and any(i in claims.get(s, []) for s in latched):
                    classes.add("latch-then-unregister")
                registered.discard(i)
                accept[i] = set()
                for s in list(claims):
                    claims[s] = [j for j in claims[s] if j != i]
                    if not claims[s]:
                        del claims[s]
                        latched.discard(s)
            elif k == "reg_s":
                i = o[1] % N_SEND
                await router.register_sender(i)
                senders[SENDER_SSRC[i]] = i
            elif k == "unreg_s":
                i = o[1] % N_SEND
                await router.unregister_sender(i)
                senders.pop(SENDER_SSRC[i], None)
            elif k == "rtp":
                _, ssrc, pt = o
                got = await router.route_rtp(R.RtpPacket(payload_type=pt & 0x7F, ssrc=ssrc))
                cl = claims.get(ssrc, [])
                if ssrc in tainted:
                    allowed = [None] + [recv[j] for j in sorted(registered) if pt in accept[j]]
                elif len(cl) == 1:
                    allowed = [recv[cl[0]] if pt in accept[cl[0]] else None]
                else:
                    acc = [j for j in sorted(registered) if pt in accept[j]]
                    if len(acc) == 1:
                        allowed = [recv[acc[0]]]
                        claims[ssrc] = [acc[0]]
                        latched.add(ssrc)
                        classes.add("latch")
                    else:
                        allowed = [None]
                        if len(acc) > 1:
                            classes.add("ambiguous-pt-drop")
                if not any(got is a for a in allowed):
                    return Outcome(f"step {step} {o}: route_rtp -> {got}, model allows {allowed}", "route-rtp", True, tuple(sorted(classes)))
                if got is not None and recv.index(got) not in registered:
                    return Outcome(f"step {step}: RTP routed to unregistered {got}", "route-unregistered", True, tuple(sorted(classes)))
            elif k == "rtcp":
                kind = o[1]
                want: set = set()
                lenient: set = set()

                def claim(ssrc: int) -> None:
                    cl = claims.get(ssrc, [])
                    if ssrc in tainted:
                        lenient.update(recv[j] for j in registered)
                    elif len(cl) == 1:
                        want.add(recv[cl[0]])

                def snd(ssrc: int) -> None:
                    if ssrc in senders:
                        want.add(send[senders[ssrc]])

                if kind == "sr":
                    pkt = R.RtcpSrPacket(ssrc=o[2], sender_info=R.RtcpSenderInfo(0, 0, 0, 0), reports=[rinfo(s) for s in o[3]])
                    claim(o[2])
                    for s in o[3]:
                        snd(s)
                elif kind == "rr":
                    pkt = R.RtcpRrPacket(ssrc=o[2], reports=[rinfo(s) for s in o[3]])
                    for s in o[3]:
                        snd(s)
                elif kind == "bye":
                    pkt = R.RtcpByePacket(sources=list(o[2]))
                    for s in o[2]:
                        claim(s)
                elif kind == "sdes":
                    pkt = R.RtcpSdesPacket(chunks=[R.RtcpSourceInfo(ssrc=s, items=[(1, b"x")]) for s in o[2]])
                elif kind == "nack":
                    pkt = R.RtcpRtpfbPacket(fmt=1, ssrc=1, media_ssrc=o[2], lost=[1])
                    snd(o[2])
                elif kind == "pli":
                    pkt = R.RtcpPsfbPacket(fmt=1, ssrc=1, media_ssrc=o[2])
                    snd(o[2])
                elif kind == "remb":
                    pkt = R.RtcpPsfbPacket(fmt=15, ssrc=1, media_ssrc=o[2], fci=R.pack_remb_fci(100000, list(o[3])))
                    snd(o[2])
                    for s in o[3]:
                        snd(s)
                    if len({s for s in o[3] if s in senders}) > 1:
                        classes.add("remb-fanout")
                else:  # malformed REMB prefix
                    pkt = R.RtcpPsfbPacket(fmt=15, ssrc=1, media_ssrc=o[2], fci=b"XEMB" + R.pack_remb_fci(1, list(o[3]))[4:])
                    snd(o[2])
                got = await router.route_rtcp(pkt)
                extra = {g for g in got if not any(g is w for w in want)} - lenient
                missing = {w for w in want if not any(w is g for g in got)}
                if extra or missing:
                    return Outcome(f"step {step} {o}: route_rtcp -> {sorted(map(repr, got))}, model {sorted(map(repr, want))}",
                                   "route-rtcp", True, tuple(sorted(classes)))
                for g in got:
                    if (g in recv and recv.index(g) not in registered) or (g in send and send.index(g) not in set(senders.values())):
                        return Outcome(f"step {step}: RTCP routed to unregistered {g}", "route-unregistered", True, tuple(sorted(classes)))
        except Exception as exc:
            return Outcome(f"step {step} {o}: raised {exc!r}", "raised:" + type(exc).__name__, True, tuple(sorted(classes)))
    nt = bool(classes & {"latch-then-unregister", "overlapping-pt", "remb-fanout"})
    return Outcome(None, None, nt, tuple(sorted(classes)))


CHECK = Check(
    prop="C12",
    level="exploration",
    rule=(
        "Histories of up to 40 (quick) / 80 (thorough) operations over 4 receivers and 3 senders with overlapping SSRC and "
        "payload-type pools: register/unregister receiver (SSRC list, payload types, mid), register/unregister sender, "
        "route an RTP packet, route each RTCP packet type incl. REMB with SSRC list and malformed REMB prefix. After every "
        "routing step the result is compared with an independent table model (claimants per SSRC incl. latching, accepted "
        "payload types, sender table). Family `transport` drives the same histories through a real RTCDtlsTransport: registration "
        "with real parameter objects, routing through _handle_rtp_data / _handle_rtcp_data on serialised packets, recording "
        "receivers and senders (one packet must reach at most one receiver, and no recipient twice). Non-trivial = history contains a latch followed by an unregistration of the latched "
        "receiver, overlapping payload types, or a REMB fan-out to more than one sender."
    ),
    families=[
        Family("history", run_history,
               lambda tier: history(tier),
               quick=6000, thorough=300000),
        Family("transport", run_history_transport,
               lambda tier: history(tier),
               quick=3000, thorough=100000),
    ],
    floor=500,
    assumptions=["with overlapping explicit registrations of one SSRC the model accepts any claimant that takes the payload type, or a drop"],
)
