"""C15 - receive-side bandwidth estimation never fails and stays within its
safety bounds; RateCounter agrees with a list model."""

from __future__ import annotations

from hypothesis import strategies as st

from aiortc import rate as RT
from aiortc.rtp import pack_remb_fci, unpack_remb_fci
from vlib.runner import Check, Family, Outcome

GAPS = [0, 0, 1, 1, 2, 5, 5, 10, 20, 20, 33, 100, 400, 1100, 5000, 30000]
SIZES = [0, 0, 1, 100, 500, 1200, 1200, 1500]
SSRC_POOL = [11, 22, 33, 44, 0, 0xFFFFFFFF, 77, 88]


@st.composite
def segment(draw):
    return {
        "n": draw(st.sampled_from([1, 2, 5, 20, 60, 150, 400])),
        "gap": draw(st.one_of(st.sampled_from(GAPS), st.integers(0, 50))),  # arrival spacing ms
        "sgap": draw(st.one_of(st.sampled_from([0, 1, 5, 10, 20, 33, 100]), st.integers(0, 50))),  # send spacing ms
        "jitter": draw(st.sampled_from([0, 0, 1, 3, 10])),
        "size": draw(st.sampled_from(SIZES)),
        "size_var": draw(st.sampled_from([0, 0, 1, 300])),
        "ssrc": draw(st.integers(0, 7)),
        "nssrc": draw(st.sampled_from([1, 1, 2, 8])),
    }


@st.composite
def history(draw, tier="quick"):
    return {
        "abs0": draw(st.one_of(st.integers(0, 0xFFFFFF), st.integers(0xFFFFFF - 300000, 0xFFFFFF))),
        "t0": draw(st.sampled_from([0, 1, 1000, 1700000000000, 2**40])),
        "segments": draw(st.lists(segment(), min_size=1, max_size=8 if tier == "quick" else 16)),
        # from this segment on every payload is empty (measured throughput falls to zero)
        "zero_from": draw(st.one_of(st.none(), st.none(), st.integers(0, 4))),
    }


def expand(case: dict):
    """-> list of (arrival_ms, abs_send_time, size, ssrc)"""
    out = []
    t = case["t0"]
    send_ms = 0
    k = 0
    zero_from = case.get("zero_from")
    for si, seg in enumerate(case["segments"]):
        if zero_from is not None and si >= zero_from:
            seg = dict(seg, size=0, size_var=0)
        for i in range(seg["n"]):
            k += 1
            j = ((k * 7919) % (2 * seg["jitter"] + 1)) - seg["jitter"] if seg["jitter"] else 0
            t += max(0, seg["gap"] + j)
            send_ms += seg["sgap"]
            size = max(0, min(1500, seg["size"] + ((k * 31) % (seg["size_var"] + 1) if seg["size_var"] else 0)))
            ssrc = SSRC_POOL[(seg["ssrc"] + (k % seg["nssrc"])) % 8]
            abs_send = (case["abs0"] + (send_ms * 262144) // 1000) & 0xFFFFFF
            out.append((t, abs_send, size, ssrc))
    return out


def run_bwe(case: dict) -> Outcome:
    pkts = expand(case)
    est = RT.RemoteBitrateEstimator()
    start_value = RT.AimdRateControl().latest_estimated_throughput
    prev_e = RT.AimdRateControl().current_bitrate
    log = []
    rc = est.rate_control
    orig_update = rc.update

    def wrapped(usage, throughput, now_ms):
        res = orig_update(usage, throughput, now_ms)
        log.append((usage, throughput, res))
        return res

    rc.update = wrapped  # type: ignore[method-assign]
    counter = est.incoming_bitrate
    orig_reset = counter.reset
    window: list = []  # (arrival, size) since last reset

    def reset_wrapped():
        window.clear()
        orig_reset()

    counter.reset = reset_wrapped  # type: ignore[method-assign]

    m_latest = start_value
    seen: list = []
    classes = set()
    increases = overuses = 0
    wrapped_abs = any(b[1] < a[1] for a, b in zip(pkts, pkts[1:]))
    last_t = None
    for n, (t, abs_send, size, ssrc) in enumerate(pkts):
        if last_t is not None and t - last_t > 1000:
            classes.add("idle>1s")
        last_t = t
        if ssrc not in seen:
            seen.append(ssrc)
        before = len(log)
        try:
            res = est.add(arrival_time_ms=t, abs_send_time=abs_send, payload_size=size, ssrc=ssrc)
        except Exception as exc:
            return Outcome(f"add() raised {exc!r} at packet {n} (t={t})", "raised:" + type(exc).__name__, True,
                           tuple(sorted(classes)))
        window.append((t, size))
        if len(log) > before:
            usage, arg, out = log[-1]
            # measurement = packets of the last 1000 ms (since the counter was last reset)
            if arg is not None:
                inwin = [(a, s) for a, s in window if t - 1000 < a <= t]
                first = min(a for a, _ in window)
                w = t - max(first, t - 999) + 1
                want = 8000 * sum(s for _, s in inwin) / w
                if abs(arg - want) > 1:
                    return Outcome(f"measured bitrate {arg} at t={t}, but the packets of the last 1000 ms give {want:.1f}",
                                   "measurement", True, tuple(sorted(classes)))
                if arg == 0:
                    classes.add("zero-throughput")
            if out is not None:
                if arg is not None:
                    m_latest = arg
                if res is None:
                    return Outcome("controller produced an estimate but add() did not report it", "not-reported", True)
        if res is not None:
            e, ssrcs = res
            if not isinstance(e, int) or isinstance(e, bool) or e < 0:
                return Outcome(f"estimate {e!r} is not a non-negative integer", "estimate-type", True, tuple(sorted(classes)))
            try:
                b2, s2 = unpack_remb_fci(pack_remb_fci(e, ssrcs))
            except Exception as exc:
                return Outcome(f"REMB cannot encode estimate {e} with {len(ssrcs)} SSRCs: {exc!r}", "remb-encode", True)
            if b2 > e or (e and (e - b2) * (1 << 17) >= e) or s2 != ssrcs:
                return Outcome(f"REMB does not round-trip estimate {e}", "remb-roundtrip", True)
            if sorted(ssrcs) != sorted(seen) or len(set(ssrcs)) != len(ssrcs):
                return Outcome(f"REMB SSRC list {ssrcs} != SSRCs seen {seen}", "ssrc-list", True, tuple(sorted(classes)))
            # "detected over-use" is the detector's hypothesis at the moment the estimate is reported (not whatever
            # the estimator chose to pass to its rate controller)
            usage = est.detector.state()
            bound = int(1.5 * m_latest) + 10000
            if e > max(prev_e, bound):
                return Outcome(f"estimate rose to {e} > 1.5 x {m_latest} + 10000 (previous {prev_e})", "rise-bound", True,
                               tuple(sorted(classes)))
            if usage == RT.BandwidthUsage.OVERUSING:
                overuses += 1
                if e > 0.85 * m_latest + 1:
                    return Outcome(f"over-use: estimate {e} > 85% of measurement {m_latest}", "overuse-cut", True,
                                   tuple(sorted(classes)))
            if e > prev_e:
                increases += 1
            prev_e = e
    if overuses:
        classes.add("overuse")
    if increases:
        classes.add("increase")
    if wrapped_abs:
        classes.add("abs-wrap")
    if len(seen) > 1:
        classes.add("multi-ssrc")
    nt = overuses > 0 and increases > 0
    return Outcome(None, None, nt, tuple(sorted(classes)))


# --- RateCounter against a list model -----------------------------------------------------


def run_counter(case: dict) -> Outcome:
    win = 1000
    c = RT.RateCounter(win, 8000)
    events: list = []
    origin = None
    now = case["t0"]
    nontrivial = False
    for n, (kind, dt, value) in enumerate(case["ops"]):
        now += dt
        if dt > win:
            nontrivial = True
        try:
            if kind == "add":
                c.add(value, now)
                got = "n/a"
            elif kind == "reset":
                c.reset()
                events.clear()
                origin = None
                continue
            else:
                got = c.rate(now)
        except Exception as exc:
            return Outcome(f"op {n} raised {exc!r}", "counter-raised", True)
        if kind == "add":
            if origin is None:
                origin = now
            events.append((now, value))
        if origin is not None:
            origin = max(origin, now - win + 1)
        if kind == "rate":
            if origin is None:
                want = None
            else:
                inw = [(a, v) for a, v in events if origin <= a <= now]
                w = now - origin + 1
                want = round(8000 * sum(v for _, v in inw) / w) if inw and w > 1 else None
            if (got is None) != (want is None) or (got is not None and abs(got - want) > 1):
                return Outcome(f"op {n}: rate({now}) = {got}, list model over the last {win} ms gives {want}", "counter-rate", True)
    return Outcome(None, None, nontrivial or len(case["ops"]) > 5, ("idle" if nontrivial else "dense",))


COUNTER_OP = st.tuples(st.sampled_from(["add", "add", "add", "rate", "rate", "reset"]),
                       st.one_of(st.sampled_from([0, 0, 1, 1, 2, 10, 500, 999, 1000, 1001, 5000]), st.integers(0, 1200)),
                       st.sampled_from(SIZES)).map(list)

CHECK = Check(
    prop="C15",
    level="exploration",
    rule=(
        "Arrival histories of up to ~3000 packets built from 1-8 (quick) / 1-16 (thorough) segments, each with an arrival "
        "spacing (0 ms .. 30 s), a send spacing (delay trends: growing -> over-use, shrinking -> under-use), jitter, payload "
        "size 0..1500 incl. all-zero phases, 1-8 SSRCs; abs-send-time origin anywhere incl. just below the 24-bit wrap. "
        "Oracles: add() never raises; every estimate is a non-negative int that REMB round-trips, listing exactly the SSRCs "
        "seen; e_k <= max(e_{k-1}, int(1.5*m_k)+10000); on over-use e_k <= 0.85*m_k; m_k equals 8000*S/W over the packets of "
        "the last 1000 ms; RateCounter vs list model on add/rate/reset histories. Non-trivial (estimator) = at least one "
        "over-use decision and one estimate increase; (counter) > 5 ops or an idle gap > window."
    ),
    families=[
        Family("estimator", run_bwe, lambda tier: history(tier), quick=2500, thorough=120000),
        Family("rate-counter", run_counter,
               lambda tier: st.fixed_dictionaries({"t0": st.sampled_from([0, 5, 10**12]),
                                                   "ops": st.lists(COUNTER_OP, min_size=1, max_size=60)}),
               quick=4000, thorough=150000),
    ],
    floor=300,
    assumptions=["arrival times are non-decreasing (the statement's precondition)",
                 "'latest measured incoming bitrate' is the throughput last handed to the rate controller (start value before the first)"],
)
