"""C08 - SCTP packets round-trip exactly; corrupted packets are rejected by the
checksum.  Pure functions: parse_packet / serialize_packet / chunk classes /
RE-CONFIG parameter classes."""

from __future__ import annotations

from hypothesis import strategies as st

from aiortc import rtcsctptransport as S
from vlib.runner import Check, Family, Outcome

U8 = st.integers(0, 255)
U16 = st.one_of(st.sampled_from([0, 1, 0x7FFF, 0x8000, 0xFFFE, 0xFFFF]), st.integers(0, 0xFFFF))
U32 = st.one_of(
    st.sampled_from([0, 1, 0x7FFFFFFF, 0x80000000, 0xFFFFFFFE, 0xFFFFFFFF]),
    st.integers(0, 0xFFFFFFFF),
)


def hexbytes(min_size: int = 0, max_size: int = 40):
    return st.binary(min_size=min_size, max_size=max_size).map(bytes.hex)


PARAMS = st.lists(st.tuples(U16, hexbytes(0, 40)).map(list), min_size=0, max_size=6)

CHUNK_NAMES = [c.__name__ for c in S.CHUNK_CLASSES]


@st.composite
def chunk_spec(draw, tier="quick"):
    name = draw(st.sampled_from(CHUNK_NAMES))
    spec = {"cls": name, "flags": draw(U8)}
    if name == "DataChunk":
        n = draw(st.one_of(st.integers(1, 1200), st.sampled_from([1, 2, 3, 4, 5, 1197, 1198, 1199, 1200])))
        spec.update(
            tsn=draw(U32), stream_id=draw(U16), stream_seq=draw(U16), protocol=draw(U32),
            user_data=draw(st.binary(min_size=n, max_size=n)).hex(),
        )
    elif name in ("InitChunk", "InitAckChunk"):
        spec.update(
            initiate_tag=draw(U32), advertised_rwnd=draw(U32), outbound_streams=draw(U16),
            inbound_streams=draw(U16), initial_tsn=draw(U32), params=draw(PARAMS),
        )
    elif name == "SackChunk":
        spec.update(
            cumulative_tsn=draw(U32), advertised_rwnd=draw(U32),
            gaps=draw(st.lists(st.tuples(U16, U16).map(list), max_size=100)),
            duplicates=draw(st.lists(U32, max_size=100)),
        )
    elif name == "ForwardTsnChunk":
        spec.update(
            cumulative_tsn=draw(U32),
            streams=draw(st.lists(st.tuples(U16, U16).map(list), max_size=100)),
        )
    elif name == "ShutdownChunk":
        spec.update(cumulative_tsn=draw(U32))
    elif name in ("HeartbeatChunk", "HeartbeatAckChunk", "AbortChunk", "ErrorChunk"):
        spec.update(params=draw(PARAMS))
    elif name == "ReconfigChunk":
        # typed RE-CONFIG parameters
        plist = []
        for _ in range(draw(st.integers(0, 3))):
            kind = draw(st.sampled_from([13, 16, 17, 999]))
            if kind == 13:
                plist.append([13, {"request_sequence": draw(U32), "response_sequence": draw(U32),
                                   "last_tsn": draw(U32),
                                   "streams": draw(st.lists(U16, max_size=135))}])
            elif kind == 16:
                plist.append([16, {"response_sequence": draw(U32), "result": draw(U32)}])
            elif kind == 17:
                plist.append([17, {"request_sequence": draw(U32), "new_streams": draw(U16)}])
            else:
                plist.append([draw(U16), draw(hexbytes(0, 40))])
        spec.update(typed_params=plist)
    else:  # body-only chunks: cookie echo/ack, shutdown ack/complete
        spec.update(body=draw(hexbytes(0, 200)))
    return {
        "sport": draw(U16), "dport": draw(U16), "tag": draw(U32), "chunk": spec,
    }


def build_chunk(spec: dict):
    cls = getattr(S, spec["cls"])
    c = cls()
    c.flags = spec["flags"]
    name = spec["cls"]
    if name == "DataChunk":
        c.tsn, c.stream_id, c.stream_seq, c.protocol = (
            spec["tsn"], spec["stream_id"], spec["stream_seq"], spec["protocol"])
        c.user_data = bytes.fromhex(spec["user_data"])
    elif name in ("InitChunk", "InitAckChunk"):
        for k in ("initiate_tag", "advertised_rwnd", "outbound_streams", "inbound_streams", "initial_tsn"):
            setattr(c, k, spec[k])
        c.params = [(t, bytes.fromhex(v)) for t, v in spec["params"]]
    elif name == "SackChunk":
        c.cumulative_tsn, c.advertised_rwnd = spec["cumulative_tsn"], spec["advertised_rwnd"]
        c.gaps = [tuple(g) for g in spec["gaps"]]
        c.duplicates = list(spec["duplicates"])
    elif name == "ForwardTsnChunk":
        c.cumulative_tsn = spec["cumulative_tsn"]
        c.streams = [tuple(s) for s in spec["streams"]]
    elif name == "ShutdownChunk":
        c.cumulative_tsn = spec["cumulative_tsn"]
    elif name in ("HeartbeatChunk", "HeartbeatAckChunk", "AbortChunk", "ErrorChunk"):
        c.params = [(t, bytes.fromhex(v)) for t, v in spec["params"]]
    elif name == "ReconfigChunk":
        params = []
        for t, v in spec["typed_params"]:
            if isinstance(v, dict):
                params.append((t, bytes(S.RECONFIG_PARAM_TYPES[t](**v))))
            else:
                params.append((t, bytes.fromhex(v)))
        c.params = params
    else:
        c.body = bytes.fromhex(spec["body"])
    return c


FIELDS = {
    "DataChunk": ["tsn", "stream_id", "stream_seq", "protocol", "user_data"],
    "InitChunk": ["initiate_tag", "advertised_rwnd", "outbound_streams", "inbound_streams", "initial_tsn", "params"],
    "InitAckChunk": ["initiate_tag", "advertised_rwnd", "outbound_streams", "inbound_streams", "initial_tsn", "params"],
    "SackChunk": ["cumulative_tsn", "advertised_rwnd", "gaps", "duplicates"],
    "ForwardTsnChunk": ["cumulative_tsn", "streams"],
    "ShutdownChunk": ["cumulative_tsn"],
    "HeartbeatChunk": ["params"], "HeartbeatAckChunk": ["params"], "AbortChunk": ["params"],
    "ErrorChunk": ["params"], "ReconfigChunk": ["params"],
    "CookieEchoChunk": ["body"], "CookieAckChunk": ["body"], "ShutdownAckChunk": ["body"],
    "ShutdownCompleteChunk": ["body"],
}


def norm(v):
    if isinstance(v, (list, tuple)):
        return [norm(x) for x in v]
    return v


def run_roundtrip(case: dict) -> Outcome:
    spec = case["chunk"]
    chunk = build_chunk(spec)
    name = spec["cls"]
    data = S.serialize_packet(case["sport"], case["dport"], case["tag"], chunk)
    classes = [name]
    nontrivial = False
    for f in FIELDS[name]:
        v = getattr(chunk, f)
        if isinstance(v, (bytes, list)) and len(v):
            if isinstance(v, bytes) and len(v) % 4:
                nontrivial = True
                classes.append("len%4!=0")
            if isinstance(v, list):
                nontrivial = True
                if any(isinstance(p, tuple) and len(p) == 2 and isinstance(p[1], bytes) and len(p[1]) % 4 for p in v):
                    classes.append("param-len%4!=0")
    if len(data) % 4:
        return Outcome("serialised packet length is not a multiple of 4", "unaligned", nontrivial, tuple(classes))
    try:
        sport, dport, tag, chunks = S.parse_packet(data)
    except Exception as exc:
        return Outcome(f"parse_packet(serialize_packet(x)) raised {exc!r}", "parse-raised", nontrivial, tuple(classes))
    if (sport, dport, tag) != (case["sport"], case["dport"], case["tag"]):
        return Outcome("header fields differ after round trip", "header", nontrivial, tuple(classes))
    if len(chunks) != 1 or type(chunks[0]) is not type(chunk):
        return Outcome(f"expected one {name}, got {chunks!r}", "chunk-count", nontrivial, tuple(classes))
    got = chunks[0]
    if got.flags != chunk.flags:
        return Outcome("flags differ", "flags", nontrivial, tuple(classes))
    for f in FIELDS[name]:
        a, b = norm(getattr(chunk, f)), norm(getattr(got, f))
        if a != b:
            return Outcome(f"{name}.{f}: built {a!r:.200} parsed {b!r:.200}", f"field-{f}", nontrivial, tuple(classes))
    again = S.serialize_packet(sport, dport, tag, got)
    if again != data:
        return Outcome("re-serialised bytes differ", "reserialise", nontrivial, tuple(classes))
    # the same object serialised again after its fields changed (chunk objects are mutable and the transport fills them in
    # step by step): it must serialise like a fresh object with those field values
    def perturbed(v):
        if isinstance(v, int):
            return v ^ 1
        if isinstance(v, bytes):
            return v[:-1] if len(v) > 1 else v + b"\x07"
        if isinstance(v, list):
            return v[:-1]
        return v

    fresh = type(chunk)(flags=chunk.flags ^ 1)
    chunk.flags ^= 1
    for f in FIELDS[name]:
        setattr(chunk, f, perturbed(getattr(chunk, f)))
        setattr(fresh, f, getattr(chunk, f))
    try:
        second, expect = bytes(chunk), bytes(fresh)
    except Exception as exc:
        return Outcome(f"serialising {name} after changing its fields raised {exc!r}", "reuse-raised", nontrivial, tuple(classes))
    if second != expect:
        return Outcome(f"{name} serialised once, fields changed, serialised again: the bytes do not reflect the new field values "
                       f"(differs from a fresh object with the same fields)", "reuse-stale", True, tuple(classes))
    # typed RE-CONFIG parameters: parse(bytes(x)) == x
    if name == "ReconfigChunk":
        for (t, v), (t2, raw) in zip(spec["typed_params"], got.params):
            if isinstance(v, dict):
                cls = S.RECONFIG_PARAM_TYPES[t]
                obj = cls(**v)
                back = cls.parse(raw)
                if back != obj:
                    return Outcome(f"{cls.__name__}: {obj} -> {back}", "reconfig-param", True, tuple(classes))
                nontrivial = True
    return Outcome(None, None, nontrivial, tuple(classes))


# --- burst corruption ---------------------------------------------------------


@st.composite
def burst_case(draw, tier="quick"):
    base = draw(chunk_spec(tier))
    length = draw(st.integers(1, 32))
    if length == 1:
        pattern = 1
    else:
        inner = draw(st.integers(0, (1 << (length - 2)) - 1)) if length > 2 else 0
        pattern = (1 << (length - 1)) | (inner << 1) | 1
    case = {"packet": base, "start_frac": draw(st.integers(0, 10**6)), "length": length, "pattern": pattern}
    if draw(st.integers(0, 5)) == 0:
        # the bursts inside the checksum field that leave a "special" value there (the XOR mask is computed from the packet)
        case["checksum_to"] = draw(st.sampled_from(["zero", "ones", "be-swapped", "plus-one", "header-word"]))
    return case


def apply_burst(data: bytes, start_bit: int, length: int, pattern: int) -> bytes:
    n = int.from_bytes(data, "big")
    total = len(data) * 8
    shift = total - start_bit - length
    return (n ^ (pattern << shift)).to_bytes(len(data), "big")


def run_burst(case: dict) -> Outcome:
    chunk = build_chunk(case["packet"]["chunk"])
    p = case["packet"]
    data = S.serialize_packet(p["sport"], p["dport"], p["tag"], chunk)
    total = len(data) * 8
    length = min(case["length"], total)
    pattern = case["pattern"] & ((1 << length) - 1)
    pattern |= 1 | (1 << (length - 1))
    start = case["start_frac"] % (total - length + 1)
    if case.get("checksum_to"):
        have = int.from_bytes(data[8:12], "big")
        want = {"zero": 0, "ones": 0xFFFFFFFF, "be-swapped": int.from_bytes(data[8:12], "little"), "plus-one": (have + 1) & 0xFFFFFFFF,
                "header-word": int.from_bytes(data[4:8], "big")}.get(case["checksum_to"], 0)
        mask = have ^ want
        if mask == 0:
            return Outcome(None, None, False, ("burst-checksum-already-" + str(case["checksum_to"]),))
        length = mask.bit_length() - ((mask & -mask).bit_length() - 1)  # first to last flipped bit
        start = 64 + (32 - mask.bit_length())
        pattern = mask >> ((mask & -mask).bit_length() - 1)
    bad = apply_burst(data, start, length, pattern)
    assert bad != data
    where = "checksum" if 64 <= start < 96 else ("header" if start < 64 else "body")
    classes = (f"burst-in-{where}", f"len{'1' if length == 1 else ('2-8' if length <= 8 else ('9-31' if length < 32 else '32'))}")
    if case.get("checksum_to"):
        classes += ("burst-checksum-to-" + str(case["checksum_to"]),)
    # "never reaches chunk processing": no chunk object may be constructed from the corrupted bytes.  The parser
    # dispatches through the module's CHUNK_TYPES table; every entry is wrapped by a counting stand-in for the call.
    built = []
    saved = dict(S.CHUNK_TYPES)

    def counting(cls):
        def make(*a, **kw):
            built.append(cls.__name__)
            return cls(*a, **kw)
        return make

    for k, cls in saved.items():
        S.CHUNK_TYPES[k] = counting(cls)
    try:
        try:
            S.parse_packet(bad)
        except ValueError:
            if built:
                return Outcome(f"burst of {length} bits at bit {start}: the packet was rejected, but only after chunk processing had "
                               f"started on the corrupted bytes ({built[:3]} constructed before the checksum was verified)",
                               "burst-reached-chunks", True, classes)
            return Outcome(None, None, True, classes)
        except Exception as exc:
            return Outcome(f"corrupted packet raised {exc!r} instead of ValueError", "burst-other-exc", True, classes)
    finally:
        S.CHUNK_TYPES.clear()
        S.CHUNK_TYPES.update(saved)
    return Outcome(f"burst of {length} bits at bit {start} was accepted by parse_packet", "burst-accepted", True, classes)


def enum_bursts(tier: str):
    """All start bits x selected lengths/patterns for a few small packets;
    thorough additionally sweeps all DATA lengths 1..1200 (round trip)."""
    specs = [
        {"cls": "CookieAckChunk", "flags": 0, "body": ""},
        {"cls": "SackChunk", "flags": 0, "cumulative_tsn": 7, "advertised_rwnd": 1024, "gaps": [[2, 3]], "duplicates": [5]},
        {"cls": "DataChunk", "flags": 3, "tsn": 1, "stream_id": 2, "stream_seq": 3, "protocol": 51, "user_data": "68656c6c6f"},
    ]
    lengths = [1, 2, 3, 8, 17, 31, 32] if tier == "quick" else list(range(1, 33))
    for spec in specs:
        pkt = {"sport": 5000, "dport": 5000, "tag": 0x01020304, "chunk": spec}
        data = S.serialize_packet(5000, 5000, 0x01020304, build_chunk(spec))
        total = len(data) * 8
        for length in lengths:
            pats = {(1 << length) - 1, 1 | (1 << (length - 1))}
            if length > 2:
                pats.add(1 | (1 << (length - 1)) | (0x55555555 & ((1 << (length - 1)) - 2)))
            for pattern in sorted(pats):
                for start in range(0, total - length + 1):
                    yield {"packet": pkt, "start_frac": start, "length": length, "pattern": pattern}
        for to in ("zero", "ones", "be-swapped", "plus-one", "header-word"):
            yield {"packet": pkt, "start_frac": 0, "length": 32, "pattern": 1, "checksum_to": to}


def enum_data_lengths(tier: str):
    step = 1 if tier == "thorough" else 7
    for n in list(range(1, 1201, step)) + [1197, 1198, 1199, 1200]:
        yield {"sport": 1, "dport": 2, "tag": 3, "chunk": {
            "cls": "DataChunk", "flags": 3, "tsn": 0xFFFFFFFF, "stream_id": 1, "stream_seq": 65535,
            "protocol": 53, "user_data": bytes((i * 7 + n) & 0xFF for i in range(n)).hex()}}


CHECK = Check(
    prop="C08",
    level="exploration",
    rule=(
        "Hypothesis builds one chunk of every class in CHUNK_CLASSES with wire-range fields "
        "(boundary-biased), parameter/user-data lengths over all residues mod 4, SACK/FORWARD-TSN "
        "lists up to 100, typed RE-CONFIG parameters; oracle: parse(serialize(x)) field-equal, "
        "re-serialisation byte-identical, typed params parse(bytes(x))==x; bursts: 1..32-bit "
        "patterns with first and last bit set at any bit offset must raise ValueError. "
        "Non-trivial = chunk carries a non-empty list/params or a byte field whose length is not "
        "a multiple of 4, or any burst case; distinct by SHA-1 of the case."
        " Bursts computed from the packet that leave 0 / all ones / the byte-swapped value / value+1 / the verification tag in the checksum field; every chunk object is serialised a second time after all its fields changed and must serialise like a fresh object."
    ),
    families=[
        Family("roundtrip", run_roundtrip, lambda tier: chunk_spec(tier), quick=12000, thorough=600000),
        Family("burst", run_burst, lambda tier: burst_case(tier), quick=8000, thorough=400000),
        Family("burst-enum", run_burst, enumerate=enum_bursts,
               exhaustive_note="every start bit x burst lengths (quick: 1,2,3,8,17,31,32; thorough: 1..32) x 2-3 patterns of three sample packets"),
        Family("data-lengths", run_roundtrip, enumerate=enum_data_lengths,
               exhaustive_note="DATA user-data lengths 1..1200 (thorough: all; quick: every 7th plus the last four)"),
    ],
    floor=1000,
    assumptions=["google_crc32c computes CRC32c correctly", "one chunk per packet (what serialize_packet builds)"],
)
