"""C01 - reliable data channels deliver every message exactly once, intact, in
order, whatever the network does to the datagrams."""

from __future__ import annotations

from checks.sctp_common import base_problems, session_classes
from vlib.runner import Check, Family, Outcome
from vlib.sctpsim import Session
from vlib.strategies import bundling, session_case, yielding


def run_session(case: dict) -> Outcome:
    s = Session(case).run()
    classes = session_classes(s)
    nt = "fault-after-established" in classes and "multi-fragment" in classes
    if s.problems:
        kind, msg = s.problems[0]
        return Outcome(msg, kind, nt, tuple(sorted(classes)))
    bp = base_problems(s)
    if bp:
        return Outcome(bp[1], bp[0], nt, tuple(sorted(classes)))
    return Outcome(None, None, nt, tuple(sorted(classes)))


CHECK = Check(
    prop="C01",
    level="exploration",
    rule=(
        "Session cases: either side is SCTP client, 1-4 reliable channels (ordered/unordered) created before or after start, up "
        "to 40 (quick) / 60 (thorough) send() calls on either end (str/bytes, lengths 0,1,2,1199,1200,1201,2400,2401,5000,30000,"
        "65535 and arbitrary, multi-byte characters straddling fragment boundaries, bursts at offset 0), two fate lists of up to "
        "400 per-datagram fates (deliver / drop / duplicate / delay 1 ms..4 s => reorder) applied to handshake, DATA and SACK "
        "alike, on a virtual-time loop. Oracle at every message event: ordered => delivered list is a prefix of the send() list "
        "(value and type), unordered => duplicate-free sub-multiset; events only on the paired channel; nothing escapes the "
        "receive path. Non-trivial = a datagram was dropped, duplicated or delayed after establishment and a multi-fragment "
        "message was sent."
        " Families yielding-send / bundling: the same sessions over a link whose datagram send suspends (none / one loop turn / 1 ms-1.2 s, per datagram) and over a sender that merges the datagrams of one loop turn into multi-chunk packets; one send in twelve carries a payload that looks like a protocol artefact (lone NUL, NULs filling one fragment exactly, DCEP-like bytes)."
    ),
    families=[
        Family("sessions", run_session, lambda tier: session_case(tier, reliable_only=True, max_sends=40 if tier == "quick" else 60),
               quick=3000, thorough=100000, min_shard=20),
        # the same space over a transport whose send suspends (a TURN relay binding or refreshing a channel)
        Family("yielding-send", run_session,
               lambda tier: yielding(session_case(tier, reliable_only=True, max_sends=40 if tier == "quick" else 60, loss_bias=True)),
               quick=1500, thorough=40000, min_shard=20),
        # ... and with a sender that bundles several chunks into one packet, as the other SCTP implementations do
        Family("bundling", run_session,
               lambda tier: bundling(session_case(tier, reliable_only=True, max_sends=40 if tier == "quick" else 60, loss_bias=True)),
               quick=1500, thorough=40000, min_shard=20),
    ],
    floor=200,
    assumptions=["DTLS is a pass-through fake; a suspending send is modelled as a per-datagram pattern of 0 / one loop turn / 1 ms..1.2 s"],
)
