"""C13 - data channel lifecycle: faithful open, forward-only states, exact
bufferedAmount (DESIGN.md section 2/C13)."""

from __future__ import annotations

import asyncio

from hypothesis import strategies as st

from checks.sctp_common import base_problems, session_classes
from vlib.runner import Check, Family, Outcome
from vlib.sctpsim import Session, chunk_types
from vlib.strategies import bundling, fate_list, send_op, yielding

ORDER = {"connecting": 0, "open": 1, "closing": 2, "closed": 3}

TEXT = st.one_of(
    st.sampled_from(["", "chat", "données", "チャンネル", "\U0001f600\U0001f600", "a" * 300, "é" * 700, "€" * 1100, "x\x00y", " "]),
    st.text(alphabet=st.characters(blacklist_categories=("Cs",)), max_size=40),
)


@st.composite
def lifecycle_case(draw, tier="quick"):
    ops = []
    nchan = 0
    started = draw(st.integers(0, 2))  # how many creates happen before start()
    n_ops = draw(st.integers(2, 16 if tier == "quick" else 30))
    start_at = None
    used_neg = set()
    for i in range(n_ops):
        if start_at is None and i >= started:
            start_at = len(ops)
        kind = draw(st.sampled_from(["create", "create", "send", "send", "close", "thr", "wait", "await", "recreate", "stop"]
                                    if nchan else ["create"]))
        dt = draw(st.sampled_from([0, 0, 0, 1, 11, 30, 200]))
        if kind == "create":
            op = {"op": "create", "side": draw(st.integers(0, 1)), "ordered": draw(st.booleans()), "mr": None, "mlt": None,
                  "label": draw(TEXT), "protocol": draw(TEXT), "dt": dt}
            if draw(st.integers(0, 4)) == 0:
                op["refill"] = draw(st.sampled_from([100, 1500, 5000]))
            rel = draw(st.sampled_from(["reliable", "reliable", "mr", "mlt"]))
            if rel == "mr":
                op["mr"] = draw(st.sampled_from([0, 1, 5, 65535]))
            elif rel == "mlt":
                op["mlt"] = draw(st.sampled_from([1, 100, 5000, 65535]))
            if draw(st.integers(0, 4)) == 0:
                # (ids the two sides would pick automatically are kept out: using one of those for a negotiated channel
                # while it is taken is a usage error and is legitimately refused)
                nid = draw(st.sampled_from([500, 501, 1000, 1001, 2000, 65533, 65534]))
                if nid not in used_neg:
                    used_neg.add(nid)
                    op["neg_id"] = nid
            ops.append(op)
            nchan += 1
        elif kind == "recreate":
            ops.append({"op": "create", "side": draw(st.integers(0, 1)), "ordered": True, "mr": None, "mlt": None,
                        "label": draw(TEXT), "protocol": "", "dt": draw(st.sampled_from([0, 200, 3000])),
                        "reuse": draw(st.integers(0, nchan - 1))})
            nchan += 1
        elif kind == "send":
            ops.append(dict(draw(send_op(nchan)), dt=dt))
        elif kind == "close":
            ops.append({"op": "close", "ch": draw(st.integers(0, nchan - 1)), "side": draw(st.integers(0, 1)), "dt": dt})
        elif kind == "thr":
            ops.append({"op": "thr", "ch": draw(st.integers(0, nchan - 1)), "side": draw(st.integers(0, 1)),
                        "value": draw(st.sampled_from([0, 1, 100, 1200, 5000, 70000])), "dt": dt})
        elif kind == "wait":
            ops.append({"op": "wait", "dt": draw(st.sampled_from([50, 500, 5000]))})
        elif kind == "await":
            ops.append({"op": "await_open", "max_ms": 30000})
        else:
            if draw(st.integers(0, 3)) == 0:
                ops.append({"op": "stop", "side": draw(st.integers(0, 1)), "dt": dt})
                break  # nothing is created or sent on an association that was stopped
    if start_at is None:
        start_at = len(ops)
    clean = draw(st.integers(0, 2)) == 0
    return {"client": draw(st.integers(0, 1)), "start_at": start_at, "ops": ops,
            "fates": [[], []] if clean else [draw(fate_list(max_segments=5)), draw(fate_list(max_segments=5))]}


@st.composite
def busy_close_case(draw, tier="quick"):
    """close() while the channel is busy: more data was accepted by send() than the congestion window lets through (so
    messages wait in every queue of the sender), then close() at once or shortly after; later the id is used again. No
    network faults (a lost RE-CONFIG is the recorded finding and would hide everything else)."""
    nchan = draw(st.integers(1, 3))
    ops = []
    for i in range(nchan):
        op = {"op": "create", "side": draw(st.integers(0, 1)), "ordered": draw(st.booleans()), "mr": None, "mlt": None, "label": "", "protocol": "",
              "dt": 0}
        if draw(st.integers(0, 2)) == 0:
            op["refill"] = draw(st.sampled_from([1500, 5000]))
        ops.append(op)
    ops.append({"op": "await_open", "max_ms": 30000})
    victim = draw(st.integers(0, nchan - 1))
    for i in range(draw(st.integers(1, 8))):
        ops.append({"op": "send", "ch": victim if draw(st.integers(0, 3)) else draw(st.integers(0, nchan - 1)), "side": draw(st.integers(0, 1)),
                    "kind": "bytes", "len": draw(st.sampled_from([1, 1200, 2400, 5000, 30000])), "fill": i, "dt": 0})
    if draw(st.booleans()):
        ops.append({"op": "close", "ch": victim, "side": draw(st.integers(0, 1)), "dt": draw(st.sampled_from([0, 0, 1, 11, 30]))})
        ops.append({"op": "wait", "dt": draw(st.sampled_from([50, 500, 5000]))})
        ops.append({"op": "create", "side": draw(st.integers(0, 1)), "ordered": draw(st.booleans()), "mr": None, "mlt": None, "label": "", "protocol": "", "dt": 0,
                    "reuse": victim})
    else:
        # the side that created the channel closes it and opens another one as soon as its own reset is answered (two to
        # four network delays later): the automatic choice is the id just freed, while the peer may still be sending
        creator = ops[victim]["side"]
        ops.append({"op": "close", "ch": victim, "side": creator, "dt": draw(st.sampled_from([0, 0, 1, 11]))})
        ops.append({"op": "create", "side": creator, "ordered": draw(st.booleans()), "mr": None, "mlt": None, "label": "", "protocol": "",
                    "dt": draw(st.sampled_from([21, 26, 31, 41, 61]))})
    ops.append({"op": "await_open", "max_ms": 30000})
    for i in range(draw(st.integers(1, 3))):
        ops.append({"op": "send", "ch": nchan, "side": draw(st.integers(0, 1)), "kind": "bytes", "len": draw(st.sampled_from([1, 100, 2400])), "fill": 100 + i,
                    "dt": draw(st.sampled_from([0, 20]))})
    return {"client": draw(st.integers(0, 1)), "start_at": 0, "ops": ops, "fates": [[], []]}


def run_lifecycle(case: dict) -> Outcome:
    flags = {"reconfig_dropped": False, "reset_overtook_data": False, "open_on_closing": False, "late_reset_on_new_channel": False}
    out = _run_lifecycle(case, flags)
    out.info.update(flags)
    return out


def _run_lifecycle(case: dict, flags: dict) -> Outcome:
    s = Session(case)
    problems: list = []
    seen_states: dict = {}  # id(ch) -> list of states sampled
    buffered_calls: list = []

    def note(ch, where: str) -> None:
        lst = seen_states.setdefault(id(ch), [])
        st_ = ch.readyState
        if not lst or lst[-1] != st_:
            if lst and ORDER[st_] < ORDER[lst[-1]]:
                problems.append(("state-backwards", f"channel id={ch.id} label={ch.label[:20]!r}: readyState went {lst[-1]} -> {st_} ({where})"))
            lst.append(st_)

    def check_buffered(where: str) -> None:
        for side, t in enumerate(s.sctp):
            per: dict = {}
            for channel, protocol, user_data in t._data_channel_queue:
                if protocol != 50:
                    per[id(channel)] = per.get(id(channel), 0) + len(user_data)
            for rec in s.channels:
                ch = rec.objs.get(side)
                if ch is None:
                    continue
                if ch.readyState == "closed" and ch.bufferedAmount >= 0:
                    continue  # what was still queued when a channel closed is discarded; the counter is not reset
                if ch.bufferedAmount < 0:
                    problems.append(("buffered-negative", f"channel {rec.idx} side {side}: bufferedAmount {ch.bufferedAmount} ({where})"))
                elif ch.bufferedAmount != per.get(id(ch), 0) and ch.bufferedAmount != per.get(id(ch), 0) + s.handing_over[side].get(ch.id, 0):
                    # (a message whose hand-over to the association is suspended inside a yielding send may or may not be counted)
                    problems.append(("buffered-mismatch", f"channel {rec.idx} side {side}: bufferedAmount {ch.bufferedAmount} but "
                                     f"{per.get(id(ch), 0)} bytes of its messages are queued ({where})"))

    def sample(where: str) -> None:
        for rec in s.channels:
            for side, ch in rec.objs.items():
                note(ch, where)
        if s.sctp:
            check_buffered(where)

    low_stats: dict = {}  # id(ch) -> {"expected": n, "fired": n}

    def on_attach(rec, side, ch) -> None:
        note(ch, "attach")
        orig = ch._addBufferedAmount
        st_ = low_stats.setdefault(id(ch), {"expected": 0, "fired": 0, "crossing_depth": 0, "rec": rec.idx, "side": side})

        def on_low() -> None:
            st_["fired"] += 1
            if st_["crossing_depth"] == 0:
                problems.append(("bufferedamountlow", f"channel {rec.idx} side {side}: bufferedamountlow fired although bufferedAmount "
                                 f"({ch.bufferedAmount}) was not crossing the threshold ({ch.bufferedAmountLowThreshold}) downwards"))

        ch.on("bufferedamountlow", on_low)

        def wrapped(amount: int) -> None:
            old, thr = ch.bufferedAmount, ch.bufferedAmountLowThreshold
            crossing = old > thr >= old + amount and ch.readyState != "closed"
            if crossing:
                st_["expected"] += 1
                st_["crossing_depth"] += 1
            try:
                orig(amount)
            finally:
                if crossing:
                    st_["crossing_depth"] -= 1

        ch._addBufferedAmount = wrapped  # type: ignore[method-assign]
        refill = rec.params.get("refill") or 0
        if refill:
            # the usual refill-on-low idiom: the application sends more from inside the handler
            budget = {"n": 3}

            def refill_now() -> None:
                if budget["n"] > 0 and ch.readyState == "open":
                    budget["n"] -= 1
                    from vlib.sctpsim import make_value

                    value = make_value(rec.idx, side, len(rec.sent[side]), "bytes", refill, 7)
                    rec.sent[side].append(value)
                    ch.send(value)

            ch.on("bufferedamountlow", refill_now)
        for ev in ("open", "close", "message"):
            ch.on(ev, lambda *a, ev=ev: (note(ch, "event " + ev), check_buffered("event " + ev)))

    def after_ops_hook_install() -> None:
        # known-finding recognisers need two facts about the run (see KNOWN_FINDINGS.txt)
        def drop_tap(side: int, data: bytes) -> None:
            if 130 in chunk_types(data):
                flags["reconfig_dropped"] = True
        s.link.drop_tap = drop_tap
        import aiortc.rtcsctptransport as S
        from aiortc.utils import uint32_gt

        for t in s.sctp:
            # ... a RE-CONFIG that reaches an endpoint whose side of the association is not established yet (its COOKIE-ACK
            # was lost) is discarded there; for the sender that is a lost RE-CONFIG like any other
            orig_chunk = t._receive_chunk

            async def wrapped_chunk(chunk, t=t, orig_chunk=orig_chunk):
                if isinstance(chunk, S.ReconfigChunk) and t._association_state != t.State.ESTABLISHED:
                    flags["reconfig_dropped"] = True
                await orig_chunk(chunk)

            t._receive_chunk = wrapped_chunk  # type: ignore[method-assign]
            # ... and a DATA_CHANNEL_OPEN that arrives for a stream whose previous channel is still 'closing' here (the
            # peer's answer to this side's reset request is still on its way) is ignored - third finding
            orig_dc = t._data_channel_receive

            async def wrapped_dc(stream_id, pp_id, data, t=t, orig_dc=orig_dc):
                if pp_id == 50 and len(data) >= 12 and data[0] == 3:
                    existing = t._data_channels.get(stream_id)
                    if existing is not None and existing.readyState == "closing":
                        flags["open_on_closing"] = True
                await orig_dc(stream_id, pp_id, data)

            t._data_channel_receive = wrapped_dc  # type: ignore[method-assign]
            orig = t._receive_reconfig_param

            awaiting_peer_reset: dict = {}  # stream id -> True once this side freed the id before the peer reset its direction

            async def wrapped(param, t=t, orig=orig, awaiting_peer_reset=awaiting_peer_reset):
                if isinstance(param, S.StreamResetOutgoingParam) and t._last_received_tsn is not None and \
                        uint32_gt(param.last_tsn, t._last_received_tsn):
                    flags["reset_overtook_data"] = True
                if isinstance(param, S.StreamResetOutgoingParam):
                    for sid in param.streams:
                        ch = t._data_channels.get(sid)
                        if awaiting_peer_reset.pop(sid, False) and ch is not None and ch.readyState in ("connecting", "open"):
                            # the peer's reset of its direction of the *previous* channel on this stream arrives after this
                            # side has handed the id to a new channel: it is carried out on the new one - fourth finding
                            flags["late_reset_on_new_channel"] = True
                if isinstance(param, S.StreamResetResponseParam) and t._reconfig_request is not None and \
                        param.response_sequence == t._reconfig_request.request_sequence:
                    for sid in t._reconfig_request.streams:
                        if sid in t._inbound_streams or sid in t._data_channels:
                            # (the peer's request for this stream resets the inbound stream; as long as that has not
                            # happened the peer's direction is live)
                            awaiting_peer_reset[sid] = sid in t._inbound_streams
                await orig(param)

            t._receive_reconfig_param = wrapped  # type: ignore[method-assign]

    s.on_attach = on_attach
    installed = {"done": False}

    def after_each(n: int, op: dict) -> None:
        if not installed["done"] and s.link is not None and len(s.sctp) == 2:
            installed["done"] = True
            after_ops_hook_install()
        sample(f"after op {n} ({op.get('op')})")

    s.after_each_op = after_each
    s.extra_op = lambda n, op: None  # "wait" is only its dt
    reuses: list = []

    orig_do = s._do

    stopped_at = {"n": None}
    closes: list = []  # (channel index, side, association established at that moment, state before)

    def do(n: int, op: dict) -> None:
        if op.get("op") == "create" and op.get("reuse") is not None and s.channels:
            old = s.channels[op["reuse"] % len(s.channels)]
            closed_everywhere = all(o.readyState == "closed" for o in old.objs.values()) and len(old.objs) == 2
            oid = next((o.id for o in old.objs.values() if o.id is not None), None)
            in_use = any(o.id == oid and o.readyState != "closed" for r in s.channels for o in r.objs.values())
            established = all(t._association_state == t.State.ESTABLISHED for t in s.sctp)
            if not (closed_everywhere and oid is not None and not in_use and established):
                return  # an id is only reused once its channel is closed on both ends (anything else is misuse)
            # ... and by the side that used it before: an id of the other side's parity can collide with that side's own
            # automatic choice for a channel it opens at the same moment
            op = dict(op, side=old.creator)
            reuses.append(old.idx)
            try:
                orig_do(n, op)
            except ValueError as exc:
                problems.append(("id-not-freed", f"op {n}: id {oid} of channel {old.idx} (closed on both ends) cannot be reused: {exc!r}"))
            return
        if (stopped_at["n"] is not None or any(t.state == "closed" for t in s.sctp)) and op.get("op") in ("create", "send"):
            return  # no new work on an association that has ended (stop(), or the handshake gave up)
        if op.get("op") == "stop":
            stopped_at["n"] = n
        if op.get("op") == "close" and s.channels:
            rec = s.channels[op.get("ch", 0) % len(s.channels)]
            ch = rec.objs.get(op.get("side", 0) % 2)
            if ch is not None:
                closes.append((rec.idx, op.get("side", 0) % 2, all(t._association_state == t.State.ESTABLISHED for t in s.sctp),
                               ch.readyState, ch.id))
        try:
            orig_do(n, op)
        except ValueError:
            if op.get("op") == "create":
                return  # an id that is in use is legitimately refused
            raise

    s._do = do  # type: ignore[method-assign]
    s.run()
    sample("end")
    classes = session_classes(s)
    ops = case.get("ops", [])
    stopped = [o.get("side", 0) % 2 for o in ops if o.get("op") == "stop"]
    if stopped:
        classes.add("stop")
    if any(o.get("op") == "close" for o in ops):
        classes.add("close")
    if reuses:
        classes.add("recreate")
    if any(any(ord(c) > 127 for c in str(o.get("label", "")) + str(o.get("protocol", ""))) for o in ops if o.get("op") == "create"):
        classes.add("non-ascii-label")
    if any(o.get("neg_id") is not None for o in ops):
        classes.add("negotiated")
    # close raced with open: a close op directly after the create of the same channel, or before establishment
    if any(state == "connecting" for _, _, _, state, _ in closes):
        classes.add("close-race")
    if any(not est for _, _, est, _, _ in closes):
        classes.add("close-before-established")
    nt = bool({"close-race", "non-ascii-label", "recreate", "stop"} & classes)
    cl = tuple(sorted(classes))
    if problems:
        return Outcome(problems[0][1], problems[0][0], nt, cl)
    bp = base_problems(s)
    if bp:
        return Outcome(bp[1], bp[0], nt, cl)
    if s.problems:  # transcript (C01/C06) on the side: nothing delivered that was not sent
        kind, msg = s.problems[0]
        return Outcome(msg, "transcript-" + kind, nt, cl)
    if s.idle_status != "idle":
        return Outcome(None, None, nt, cl, inconclusive=True)
    established = all(s.was_established)
    # ---- per channel, at quiescence
    for rec in s.channels:
        for side, ch in rec.objs.items():
            ev = rec.events[side]
            if ev.count("open") > 1 or ev.count("close") > 1:
                return Outcome(f"channel {rec.idx} side {side}: events {ev}", "event-repeated", nt, cl)
            if ch.bufferedAmount != 0 and ch.readyState == "open" and established:
                return Outcome(f"channel {rec.idx} side {side}: bufferedAmount {ch.bufferedAmount} at quiescence ({ch.readyState})",
                               "buffered-not-drained", nt, cl)
    for st_ in low_stats.values():
        if st_["fired"] != st_["expected"]:
            return Outcome(f"channel {st_['rec']} side {st_['side']}: bufferedAmount crossed its threshold downwards {st_['expected']} time(s) "
                           f"while the channel was not closed, bufferedamountlow fired {st_['fired']} time(s)", "bufferedamountlow-count", nt, cl)
    for side, ch in s.unpaired:
        return Outcome(f"datachannel event on side {side} for id {ch.id} label {ch.label[:30]!r} that matches no channel opened by the peer "
                       f"(a second event for one channel, or an invented one)", "datachannel-unmatched", nt, cl)
    auto_ids = {0: set(), 1: set()}
    for rec in s.channels:
        p = rec.params
        creator = rec.objs.get(rec.creator)
        peer = rec.objs.get(1 - rec.creator)
        if creator is None:
            continue
        if p.get("neg_id") is None and p.get("id") is None and creator.id is not None:
            auto_ids[rec.creator].add(creator.id)
        reached_open = "open" in seen_states.get(id(creator), [])
        touched = any(c[0] == rec.idx for c in closes)
        if p.get("neg_id") is None and established and not stopped and not touched and all(t.state == "connected" for t in s.sctp):
            # the open handshake is reliable whatever the channel's own reliability: once the network has recovered the
            # channel is open on its creator and has been announced to the peer
            if creator.readyState != "open" or peer is None:
                return Outcome(f"channel {rec.idx} ({'reliable' if p.get('mr') is None and p.get('mlt') is None else 'partially reliable'}, "
                               f"label {creator.label[:20]!r}) is {creator.readyState} on its creator and "
                               f"{'was never announced to' if peer is None else 'is ' + peer.readyState + ' on'} the peer at quiescence",
                               "never-opened", nt, cl)
        if p.get("neg_id") is None:
            if reached_open and established and not stopped:
                if peer is None:
                    return Outcome(f"channel {rec.idx} (id {creator.id}, label {creator.label[:30]!r}) opened on its creator but the peer never got a "
                                   f"datachannel event", "datachannel-missing", nt, cl)
            if peer is not None:
                want = (creator.id, creator.label, creator.protocol, creator.ordered, creator.maxRetransmits, creator.maxPacketLifeTime)
                got = (peer.id, peer.label, peer.protocol, peer.ordered, peer.maxRetransmits, peer.maxPacketLifeTime)
                if want != got:
                    return Outcome(f"channel {rec.idx}: announced to the peer as {_short(got)} but created as {_short(want)}", "datachannel-fields", nt, cl)
        else:
            if established and not stopped and peer is not None:
                closed_by_program = any(c[0] == rec.idx for c in closes)
                if not closed_by_program and not (creator.readyState == "open" and peer.readyState == "open"):
                    return Outcome(f"negotiated channel {rec.idx} id {p['neg_id']}: states {creator.readyState}/{peer.readyState} once established",
                                   "negotiated-not-open", nt, cl)
        # close(): both ends closed once the network has recovered
        # (a channel closed while there is no association yet is closed locally only: nothing can tell the peer)
        mine = [c for c in closes if c[0] == rec.idx and c[2] and c[3] != "closed"]
        if mine and established and not stopped and all(t.state == "connected" for t in s.sctp):
            for side, ch in rec.objs.items():
                if ch.readyState != "closed":
                    return Outcome(f"close() was called on channel {rec.idx} (side {mine[0][1]}, then {mine[0][3]}) but side {side} is still "
                                   f"{ch.readyState} at quiescence", "close-incomplete", nt, cl, info=dict(flags))
    if auto_ids[0] & auto_ids[1]:
        return Outcome(f"automatically chosen ids collide: {sorted(auto_ids[0] & auto_ids[1])}", "id-collision", nt, cl)
    par = [{i % 2 for i in auto_ids[k]} for k in (0, 1)]
    if len(par[0]) > 1 or len(par[1]) > 1 or (par[0] and par[0] == par[1]):
        return Outcome(f"automatically chosen ids do not keep to one parity per side: {sorted(auto_ids[0])} / {sorted(auto_ids[1])}", "id-parity", nt, cl)
    # association ended: every channel of that endpoint is closed
    for side, t in enumerate(s.sctp):
        if t.state == "closed":
            for rec in s.channels:
                ch = rec.objs.get(side)
                if ch is not None and ch.readyState != "closed":
                    return Outcome(f"association on side {side} has ended but channel {rec.idx} (id {ch.id}) is still {ch.readyState}",
                                   "open-after-association-end", nt, cl)
    return Outcome(None, None, nt, cl)


def _short(t) -> str:
    return repr(tuple((x[:25] + "..." if isinstance(x, str) and len(x) > 25 else x) for x in t))


CHECK = Check(
    prop="C13",
    level="exploration",
    rule=(
        "Programs of 2-16 (quick) / 30 (thorough) steps over a simulated association: create (either side, any Unicode label "
        "and protocol up to ~3000 UTF-8 bytes, ordered/unordered, reliable / maxRetransmits / maxPacketLifeTime, negotiated "
        "with explicit id or not, before or after start()), send, bufferedAmountLowThreshold, close at any moment (directly "
        "after create, before the ACK), re-create with the id of an earlier channel, stop(); optional drop/dup/delay fate "
        "lists. Oracle from recorded events and samples after every step and event: readyState only moves forward, at most "
        "one open/close event, one datachannel event per opened channel with equal id/label/protocol/ordered/reliability and "
        "none unmatched, auto ids of the two sides keep to different parities, negotiated pairs open, closed channels are "
        "closed on both ends at quiescence and their id can be reused, every channel is closed once its association ended, "
        "bufferedAmount equals the bytes of the channel's queued user messages at every sample (never negative, 0 when "
        "drained), bufferedamountlow fires exactly on downward crossings, nothing raises. Non-trivial = a close directly "
        "after create, a non-ASCII label, an id reuse or a stop()."
        " Families yielding-send / bundling as in C01; busy-close: no faults, more data accepted than the congestion window lets through, close() at once or shortly after, then the id is used again."
    ),
    families=[Family("programs", run_lifecycle, lifecycle_case, quick=4000, thorough=120000, min_shard=20),
              # the same programs over a transport whose send suspends (TURN channel bind / refresh)
              Family("yielding-send", run_lifecycle, lambda tier: yielding(lifecycle_case(tier)), quick=1500, thorough=40000, min_shard=20),
              Family("busy-close", run_lifecycle, busy_close_case, quick=1500, thorough=40000, min_shard=20),
              # ... and with a sender that bundles (DCEP OPEN + DATA, RE-CONFIG + SACK, ... in one packet)
              Family("bundling", run_lifecycle, lambda tier: bundling(lifecycle_case(tier)), quick=1500, thorough=40000, min_shard=20)],
    floor=300,
    recognisers={
        # (the side whose own request was answered frees the id and may hand it to a new channel while the peer's direction of
        # the old stream is still live: the old stream's late DATA / a channel nobody announced then show up on the new one)
        "reconfig-not-retransmitted": lambda fam, case, out: out.kind in ("close-incomplete", "transcript-extra-message", "transcript-corrupted",
                                                                         "datachannel-unmatched", "datachannel-fields", "never-opened", "undelivered") and bool(out.info.get("reconfig_dropped")),
        # besides the half-closed channel, the old stream's late DATA can then surface on a channel that reuses the id
        "open-overtakes-reset-response": lambda fam, case, out: out.kind in ("never-opened", "datachannel-unmatched", "datachannel-fields", "undelivered",
                                                                            "close-incomplete") and bool(out.info.get("open_on_closing")),
        "late-reset-closes-new-channel": lambda fam, case, out: out.kind in ("never-opened", "datachannel-unmatched", "datachannel-fields", "undelivered",
                                                                            "close-incomplete", "transcript-extra-message", "transcript-corrupted")
        and bool(out.info.get("late_reset_on_new_channel")),
        "reset-overtakes-data": lambda fam, case, out: out.kind in ("close-incomplete", "transcript-extra-message", "transcript-corrupted",
                                                                   "datachannel-unmatched", "datachannel-fields", "never-opened", "undelivered") and bool(out.info.get("reset_overtook_data")),
    },
    assumptions=["as C01; bufferedAmount is compared with the anchored _data_channel_queue"],
)
