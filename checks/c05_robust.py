"""C05 - no received datagram can crash, hang or wedge the receive path.

Three layers (DESIGN.md section 2/C05):
  parsers      every wire parser on random bytes and structure-aware mutants of valid packets:
               returns or raises ValueError, bounded work (deterministic line counter)
  sctp-inject  datagrams injected into a live SCTP association in every protocol state; nothing
               escapes _handle_data, bounded work, and after neutral injections the association
               still carries fresh valid messages
  rtp-inject   RTP/RTCP datagrams through the real RTCDtlsTransport._handle_rtp_data /
               _handle_rtcp_data with real receivers and a sender registered; nothing escapes,
               bounded work, fresh valid media still reaches the decoder afterwards
  fuzz         atheris coverage-guided campaigns over the same parser oracle (see fuzz/)
"""

from __future__ import annotations

import asyncio
import struct

from hypothesis import strategies as st

import aiortc.rtcsctptransport as S
import aiortc.rtp as R
from aiortc.codecs.h264 import H264PayloadDescriptor
from aiortc.codecs.vpx import VpxPayloadDescriptor
from checks.c07_rtp import build_rtcp, make_map, make_rtp, rtcp_packet, rtp_case
from checks.c08_sctp_codec import build_chunk, chunk_spec
from google_crc32c import value as crc32c
from vlib.runner import Check, Family, Outcome
from vlib.workmeter import WorkBudgetExceeded, work_meter

U8 = st.integers(0, 255)
U16 = st.one_of(st.sampled_from([0, 1, 2, 3, 4, 0x7FFF, 0x8000, 0xFFFE, 0xFFFF]), st.integers(0, 0xFFFF))
U32 = st.one_of(st.sampled_from([0, 1, 0x7FFFFFFF, 0x80000000, 0xFFFFFFFE, 0xFFFFFFFF]), st.integers(0, 0xFFFFFFFF))

ALL_EXT_IDS = {"mid": 1, "repaired_rtp_stream_id": 2, "rtp_stream_id": 3, "abs_send_time": 4,
               "transmission_offset": 5, "audio_level": 6, "transport_sequence_number": 7}
ALL_EXT_IDS_2 = {"mid": 15, "repaired_rtp_stream_id": 16, "rtp_stream_id": 200, "abs_send_time": 254,
                 "transmission_offset": 255, "audio_level": 17, "transport_sequence_number": 100}


class _DetOs:
    """Stands in for `os` inside aiortc.rtp while a case is generated: RTP padding bytes come from os.urandom, and a
    generated case must be a pure function of the seed."""

    @staticmethod
    def urandom(n: int) -> bytes:
        return bytes((i * 37 + 11) & 0xFF for i in range(n))


def det_serialize(pkt, ext_map) -> bytes:
    saved = R.os
    R.os = _DetOs  # type: ignore[assignment]
    try:
        return pkt.serialize(ext_map)
    finally:
        R.os = saved


# --------------------------------------------------------------------------
# byte-level mutation of valid packets


@st.composite
def mutation_ops(draw, max_ops=4):
    ops = []
    for _ in range(draw(st.integers(0, max_ops))):
        kind = draw(st.sampled_from(["trunc", "set8", "set16", "flip", "insert", "dup", "zero", "extend"]))
        ops.append([kind, draw(st.integers(0, 10000)), draw(st.one_of(
            st.sampled_from([0, 1, 2, 3, 4, 5, 7, 8, 0xFF, 0xFFFF, 0xFFFE, 0x8000, 0x100]), st.integers(0, 0xFFFF)))])
    return ops


def apply_ops(data: bytes, ops: list) -> bytes:
    b = bytearray(data)
    for kind, where, value in ops:
        n = len(b)
        if kind == "extend":
            b += bytes([(value + i) & 0xFF for i in range(where % 40)])
            continue
        if n == 0:
            continue
        pos = where % n
        if kind == "trunc":
            del b[pos:]
        elif kind == "set8":
            b[pos] = value & 0xFF
        elif kind == "set16":
            pos = (pos // 2) * 2  # fields are 16-bit aligned in all these formats
            b[pos:pos + 2] = struct.pack("!H", value & 0xFFFF)[: max(0, min(2, n - pos))]
        elif kind == "flip":
            b[pos] ^= 1 << (value % 8)
        elif kind == "insert":
            b[pos:pos] = bytes([value & 0xFF] * (1 + value % 5))
        elif kind == "dup":
            b[pos:pos] = b[pos:pos + 4 + value % 28]
        elif kind == "zero":
            b[pos:pos + 4] = b"\0" * len(b[pos:pos + 4])
    return bytes(b[:1500])


def fix_crc(data: bytes) -> bytes:
    if len(data) < 12:
        return data
    body = data[0:8] + b"\0\0\0\0" + data[12:]
    return data[0:8] + struct.pack("<L", crc32c(body)) + data[12:]


# --------------------------------------------------------------------------
# family 1: parsers

TARGETS = ["sctp_packet", "sctp_packet_crc", "sctp_params", "reconfig_param", "rtp", "rtp2", "rtcp", "remb", "hdrext",
           "h264", "vp8", "unwrap_rtx"]


@st.composite
def parser_case(draw, tier="quick"):
    target = draw(st.sampled_from(TARGETS))
    mode = draw(st.sampled_from(["random", "mutant", "mutant", "mutant", "crafted"]))
    aux = {}
    if target in ("sctp_packet", "sctp_packet_crc"):
        spec = draw(chunk_spec(tier))
        base = S.serialize_packet(spec["sport"], spec["dport"], spec["tag"], build_chunk(spec["chunk"]))
        if mode == "crafted":
            # arbitrary chunk type / flags / declared length / body
            body = draw(st.binary(max_size=64))
            declared = draw(st.one_of(st.just(len(body) + 4), st.integers(0, 80), st.sampled_from([0, 1, 3, 4, 0xFFFF])))
            base = struct.pack("!HHLL", 5000, 5000, 1, 0) + struct.pack("!BBH", draw(U8), draw(U8), declared) + body
    elif target == "sctp_params":
        params = draw(st.lists(st.tuples(U16, st.binary(max_size=20)), max_size=5))
        base = S.encode_params(params)
        if mode == "crafted":
            base = struct.pack("!HH", draw(U16), draw(st.integers(0, 12))) + draw(st.binary(max_size=12))
    elif target == "reconfig_param":
        aux["ptype"] = draw(st.sampled_from([13, 16, 17]))
        base = draw(st.binary(max_size=40))
    elif target in ("rtp", "rtp2", "unwrap_rtx"):
        c = draw(rtp_case(tier))
        c["ext"]["ids"] = dict(ALL_EXT_IDS if target != "rtp2" else ALL_EXT_IDS_2)
        try:
            base = det_serialize(make_rtp(c), make_map(c["ext"]["ids"]))
        except Exception:
            base = det_serialize(make_rtp({**c, "ext": {"ids": {}, "values": {}}}), R.HeaderExtensionsMap())
        if mode == "crafted" and draw(st.integers(0, 3)) == 0:
            # nothing but a header: padding / extension / CSRC bits set with no bytes behind them
            cc = draw(st.integers(0, 3))
            first = 0x80 | (0x20 if draw(st.booleans()) else 0) | (0x10 if draw(st.integers(0, 2)) == 0 else 0) | cc
            base = struct.pack("!BBHLL", first, c["pt"], c["seq"], c["ts"], c["ssrc"]) + b"\0\0\0\1" * cc
            if first & 0x10:
                base += struct.pack("!HH", 0xBEDE, 0)
            base += bytes(draw(st.sampled_from([b"", b"\x00", b"\x01", b"\x02", b"\xff"])))
        elif mode == "crafted":
            # extension block with arbitrary (id, length, value) elements: wrong sizes for the configured URIs
            one = target != "rtp2"
            elems = b""
            for _ in range(draw(st.integers(1, 6))):
                xid = draw(st.integers(1, 14)) if one else draw(st.sampled_from([15, 16, 17, 100, 200, 254, 255, 1, 0]))
                val = draw(st.binary(max_size=8))
                if one:
                    if not val:
                        val = b"\0"
                    elems += bytes([(xid << 4) | ((len(val) - 1) & 0xF)]) + val
                else:
                    elems += bytes([xid, len(val)]) + val
            elems += b"\0" * (-len(elems) % 4)
            hdr = struct.pack("!BBHLL", 0x90, c["pt"], c["seq"], c["ts"], c["ssrc"])
            base = hdr + struct.pack("!HH", 0xBEDE if one else 0x1000, len(elems) // 4) + elems + bytes.fromhex(c["payload"])[:50]
    elif target == "rtcp":
        pkts = draw(st.lists(rtcp_packet(), min_size=1, max_size=3))
        base = b"".join(bytes(build_rtcp(p)) for p in pkts)
        if mode == "crafted":
            body = draw(st.binary(max_size=60).map(lambda b: b + b"\0" * (-len(b) % 4)))
            base = struct.pack("!BBH", 0x80 | draw(st.integers(0, 63)), draw(st.sampled_from([200, 201, 202, 203, 205, 206, 204, 207])),
                               len(body) // 4) + body
    elif target == "remb":
        base = R.pack_remb_fci(draw(st.integers(0, 2**64 - 1)), draw(st.lists(U32, max_size=6)))
        if mode == "crafted":
            base = b"REMB" + bytes([draw(U8)]) + draw(st.binary(min_size=3, max_size=20))
    elif target == "hdrext":
        aux["profile"] = draw(st.sampled_from([0xBEDE, 0x1000, 0x1001, 0]))
        base = draw(st.binary(max_size=40))
    elif target == "h264":
        base = bytes([draw(st.sampled_from([24, 28, 1, 5, 7, 25, 29, 0, 31])) | draw(st.sampled_from([0, 0x60, 0x80]))]) + draw(st.binary(max_size=60))
    else:  # vp8
        base = draw(st.binary(max_size=12))
    if mode == "random":
        data = draw(st.binary(max_size=draw(st.sampled_from([0, 3, 11, 12, 15, 16, 20, 64, 1200]))))
    else:
        data = apply_ops(base, draw(mutation_ops()))
    if target == "sctp_packet_crc":
        data = fix_crc(data)
    return {"target": target, "mode": mode, "data": data.hex(), "aux": aux}


def call_parser(target: str, data: bytes, aux: dict):
    if target in ("sctp_packet", "sctp_packet_crc"):
        return S.parse_packet(data)
    if target == "sctp_params":
        return S.decode_params(data)
    if target == "reconfig_param":
        return S.RECONFIG_PARAM_TYPES[aux["ptype"]].parse(data)
    if target == "rtp":
        return R.RtpPacket.parse(data, make_map(ALL_EXT_IDS))
    if target == "rtp2":
        return R.RtpPacket.parse(data, make_map(ALL_EXT_IDS_2))
    if target == "unwrap_rtx":
        # what RTCRtpReceiver does with an RTX packet: parse, then unwrap when the payload has >= 2 bytes
        p = R.RtpPacket.parse(data, make_map(ALL_EXT_IDS))
        if len(p.payload) >= 2:
            return R.unwrap_rtx(p, payload_type=96, ssrc=1234)
        return p
    if target == "rtcp":
        return R.RtcpPacket.parse(data)
    if target == "remb":
        return R.unpack_remb_fci(data)
    if target == "hdrext":
        return R.unpack_header_extensions(aux["profile"], data)
    if target == "h264":
        return H264PayloadDescriptor.parse(data)
    if target == "vp8":
        return VpxPayloadDescriptor.parse(data)
    raise KeyError(target)


def work_budget(nbytes: int) -> int:
    # generous: ~200 executed lines per input byte plus a constant
    return 200 * (nbytes + 64)


def run_parser(case: dict) -> Outcome:
    target, data, aux = case["target"], bytes.fromhex(case["data"]), case.get("aux", {})
    classes = [f"target={target}", f"mode={case.get('mode')}"]
    accepted = False
    try:
        with work_meter(work_budget(len(data))) as m:
            call_parser(target, data, aux)
        accepted = True
    except ValueError:
        pass  # includes UnicodeDecodeError, which is a ValueError and is caught as one by every caller
    except WorkBudgetExceeded as exc:
        return Outcome(f"{target} on {len(data)} bytes: {exc} (endless or disproportionate loop)",
                       f"parser-work:{target}", True, tuple(classes))
    except Exception as exc:
        return Outcome(f"{target} raised {type(exc).__name__}: {exc!r} on {len(data)} bytes"[:300],
                       f"parser-raised:{target}:{type(exc).__name__}", True, tuple(classes))
    classes.append("accepted" if accepted else "rejected")
    # non-trivial: reached past the first validation layer
    nt = accepted or target in ("sctp_packet_crc",)
    return Outcome(None, None, nt, tuple(classes))


# --------------------------------------------------------------------------
# family 2: datagrams injected into a live SCTP association

from checks.sctp_common import base_problems, drain_verdict, session_classes  # noqa: E402
from vlib.sctpsim import Session  # noqa: E402
from vlib.strategies import create_op, fate_list, send_op  # noqa: E402

OPEN_VALID = struct.pack("!BBHLHH", 3, 0, 0, 0, 2, 0) + b"hi"
DCEP_BODIES = [
    OPEN_VALID,
    OPEN_VALID[:5],  # truncated below the fixed part
    struct.pack("!BBHLHH", 3, 0x82, 0, 7, 500, 500) + b"x",  # lengths beyond the message
    struct.pack("!BBHLHH", 3, 1, 0, 3, 2, 2) + b"\xff\xfe\xc3\x28",  # label/protocol not UTF-8
    b"\x02",  # ACK
    b"\x02extra",
    b"\x07garbage",  # unknown DCEP message type
    b"",
] + [struct.pack("!BBHLHH", 3, t, 0, 0, 1, 0) + b"x" for t in (0x03, 0x04, 0x40, 0x7F, 0x83, 0xFF)]  # channel types nobody defined
EFFECT_FREE_TYPES = [4, 5, 9, 2, 10, 11, 14, 8, 1, 63, 64, 127, 128, 129, 191, 193, 255]  # once established
DANGEROUS_TYPES = [0, 3, 6, 7, 130, 192]


@st.composite
def injection(draw, nchan):
    kind = draw(st.sampled_from([
        "raw", "mutant", "chunk", "chunk", "chunk-dangerous", "dup-data", "stale-sack", "samecum-sack", "old-fwd",
        "data-new-stream", "data-new-stream", "dcep-existing", "bad-utf8", "reconfig-typed", "reconfig-raw", "bundle-init",
        "sack-beyond", "fwd-beyond", "abort", "shutdown", "data-far"]))
    op = {"op": "inject", "to": draw(st.integers(0, 1)), "kind": kind, "dt": draw(st.sampled_from([0, 0, 1, 20]))}
    if kind == "raw":
        op["data"] = draw(st.binary(max_size=draw(st.sampled_from([0, 1, 11, 12, 16, 40, 1200])))).hex()
    elif kind == "mutant":
        spec = draw(chunk_spec())
        base = S.serialize_packet(5000, 5000, spec["tag"], build_chunk(spec["chunk"]))
        op["data"] = apply_ops(base, draw(mutation_ops())).hex()
    elif kind in ("chunk", "chunk-dangerous"):
        op["ctype"] = draw(st.sampled_from(EFFECT_FREE_TYPES if kind == "chunk" else DANGEROUS_TYPES))
        op["flags"] = draw(U8)
        spec = draw(chunk_spec())
        valid_body = bytes(build_chunk(spec["chunk"]))[4:]
        body = draw(st.one_of(st.binary(max_size=40), st.just(valid_body[:200])))
        op["body"] = apply_ops(body, draw(mutation_ops(2))).hex() if draw(st.booleans()) else body.hex()
        op["tagmode"] = draw(st.sampled_from(["good", "good", "good", "zero", "bad"]))
    elif kind == "dup-data":
        op.update(k=draw(st.integers(0, 5)), stream=draw(U16), seq=draw(U16), ppid=draw(st.sampled_from([50, 51, 53, 56, 57, 0])),
                  flags=draw(st.integers(0, 7)), body=draw(st.binary(max_size=30)).hex())
    elif kind in ("stale-sack", "samecum-sack", "sack-beyond"):
        op.update(k=draw(st.one_of(st.integers(1, 5), st.sampled_from([1000, 2**20, 2**31 - 1, 2**31]))), rwnd=draw(U32),
                  gaps=draw(st.one_of(st.lists(st.tuples(U16, U16).map(list), max_size=8),
                                      st.lists(st.tuples(st.integers(0, 40), st.integers(0, 40)).map(list), max_size=40),
                                      st.just([[1, 65535]] * 280))),
                  dups=draw(st.lists(U32, max_size=5)))
    elif kind in ("old-fwd", "fwd-beyond"):
        op.update(k=draw(st.one_of(st.integers(0, 5), st.sampled_from([1000, 2**20, 2**31 - 2, 2**31 - 1]))), streams=draw(st.lists(st.tuples(U16, U16).map(list), max_size=6)))
    elif kind == "data-far":
        # one to three DATA chunks with consecutive TSNs far ahead of the cumulative TSN, around the largest gap-block
        # offset a SACK can express (and around half the number space)
        op.update(k=draw(st.sampled_from([0xFFFD, 0xFFFE, 0xFFFF, 0x10000, 0x10001, 2**31 - 2, 2**31 - 1, 2**31])), n=draw(st.integers(1, 3)),
                  stream=1000 + draw(st.integers(0, 9)), flags=draw(st.sampled_from([3, 3, 2, 1, 0, 7])))
    elif kind == "data-new-stream":
        op.update(stream=1000 + draw(st.integers(0, 9)), seq=draw(st.sampled_from([0, 0, 1, 65535])),
                  flags=draw(st.sampled_from([3, 7, 7, 2, 1, 0, 5, 6])),
                  ppid=draw(st.sampled_from([50, 50, 50, 51, 53, 56, 57, 0, 49, 0xFFFFFFFF])),
                  body=draw(st.one_of(st.sampled_from(DCEP_BODIES), st.binary(max_size=40))).hex())
    elif kind == "dcep-existing":
        op.update(ch=draw(st.integers(0, max(0, nchan - 1))), body=draw(st.sampled_from(DCEP_BODIES)).hex())
    elif kind == "bad-utf8":
        op.update(ch=draw(st.integers(0, max(0, nchan - 1))), body=draw(st.sampled_from([b"\xff", b"abc\xc3", b"\xed\xa0\x80", b"\x80ok"])).hex())
    elif kind == "reconfig-typed":
        params = []
        for _ in range(draw(st.integers(1, 3))):
            t = draw(st.sampled_from([13, 16, 17]))
            if t == 13:
                params.append([13, bytes(S.StreamResetOutgoingParam(draw(U32), draw(U32), draw(U32),
                                                                    [1000 + x for x in draw(st.lists(st.integers(0, 50), max_size=6))])).hex()])
            elif t == 16:
                params.append([16, bytes(S.StreamResetResponseParam(draw(U32), draw(st.integers(0, 6)))).hex()])
            else:
                params.append([17, bytes(S.StreamAddOutgoingParam(draw(U32), draw(st.integers(0, 16)))).hex()])
        op["params"] = params
    elif kind == "reconfig-raw":
        op["params"] = draw(st.lists(st.tuples(st.sampled_from([13, 16, 17, 14, 15, 18, 0, 0x8008]),
                                               st.binary(max_size=16).map(bytes.hex)).map(list), min_size=1, max_size=3))
    elif kind == "bundle-init":
        op["second"] = draw(st.sampled_from([0, 1, 3, 4, 6, 11]))
    return op


@st.composite
def inject_case(draw, tier="quick"):
    nchan = draw(st.integers(1, 3))
    creates = [draw(create_op(reliable_only=True)) for _ in range(nchan)]
    early = draw(st.integers(0, 5)) == 0  # some injections before / during association set-up
    ops = list(creates)
    if early:
        for _ in range(draw(st.integers(1, 3))):
            ops.append(draw(injection(nchan)))
    ops.append({"op": "await_open", "max_ms": 60000})
    body = draw(st.lists(st.one_of(send_op(nchan), injection(nchan), injection(nchan)), min_size=1, max_size=14))
    if not any(o["op"] == "inject" for o in body) and not early:
        body.append(draw(injection(nchan)))
    ops += body
    clean = draw(st.integers(0, 2)) != 0
    return {"client": draw(st.integers(0, 1)), "start_at": draw(st.sampled_from([0, 0, len(creates)])), "ops": ops,
            "fates": [[], []] if clean else [draw(fate_list(max_segments=4)), draw(fate_list(max_segments=4))]}


def _packet(tag: int, chunk_bytes: bytes) -> bytes:
    header = struct.pack("!HHL", 5000, 5000, tag & 0xFFFFFFFF)
    return header + struct.pack("<L", crc32c(header + b"\0\0\0\0" + chunk_bytes)) + chunk_bytes


def _raw_chunk(ctype: int, flags: int, body: bytes) -> bytes:
    data = struct.pack("!BBH", ctype & 0xFF, flags & 0xFF, len(body) + 4) + body
    return data + b"\0" * (-len(data) % 4)


def build_injection(sess: Session, op: dict):
    """-> (datagram, neutral?) built against the live association state."""
    to = op.get("to", 0) % 2
    rx, peer = sess.sctp[to], sess.sctp[1 - to]
    established = all(t._association_state == t.State.ESTABLISHED for t in sess.sctp)
    tag = rx._local_verification_tag
    kind = op.get("kind")
    M = 1 << 32

    def steal_tsn() -> int:
        tsn = peer._local_tsn
        peer._local_tsn = (peer._local_tsn + 1) % M
        return tsn

    def data_chunk(tsn, stream, seq, ppid, flags, body):
        c = S.DataChunk(flags=flags & 7)
        c.tsn, c.stream_id, c.stream_seq, c.protocol, c.user_data = tsn % M, stream & 0xFFFF, seq & 0xFFFF, ppid & 0xFFFFFFFF, body
        return bytes(c)

    if kind in ("raw", "mutant"):
        return bytes.fromhex(op.get("data", "")), True
    if kind in ("chunk", "chunk-dangerous"):
        ctype = op.get("ctype", 4) & 0xFF
        tagmode = op.get("tagmode", "good")
        t = {"good": tag, "zero": 0, "bad": (tag ^ 0x5A5A5A5A) or 1}[tagmode if tagmode in ("good", "zero", "bad") else "good"]
        effective = (ctype == 1 and t == 0) or (ctype != 1 and t == tag)
        neutral = (not effective) or (established and ctype in EFFECT_FREE_TYPES)
        return _packet(t, _raw_chunk(ctype, op.get("flags", 0), bytes.fromhex(op.get("body", "")))), neutral
    if rx._last_received_tsn is None or not established:
        # crafted chunks need an association; before that only the generic kinds are injected
        return b"", True
    if kind == "dup-data":
        tsn = (rx._last_received_tsn - op.get("k", 0)) % M
        return _packet(tag, data_chunk(tsn, op.get("stream", 0), op.get("seq", 0), op.get("ppid", 0), op.get("flags", 3),
                                       bytes.fromhex(op.get("body", "")))), True
    if kind in ("stale-sack", "samecum-sack", "sack-beyond"):
        c = S.SackChunk()
        k = max(1, op.get("k", 1))
        if kind == "stale-sack":
            # "older" is only defined below half the sequence space, and the association moves on while the datagram
            # is in flight: stay well inside
            k = min(k, 2**30)
        c.cumulative_tsn = (rx._last_sacked_tsn + {"stale-sack": -k, "samecum-sack": 0, "sack-beyond": k}[kind]) % M
        c.advertised_rwnd = op.get("rwnd", 0) & 0xFFFFFFFF
        c.gaps = [(g[0] & 0xFFFF, g[1] & 0xFFFF) for g in op.get("gaps", []) if isinstance(g, (list, tuple)) and len(g) == 2][:290]
        c.duplicates = [d & 0xFFFFFFFF for d in op.get("dups", [])]
        # a zero receiver window legitimately throttles the sender; keep the neutral variants neutral
        if kind != "sack-beyond":
            c.advertised_rwnd = max(c.advertised_rwnd, 1 << 20)
        return _packet(tag, bytes(c)), kind != "sack-beyond"
    if kind in ("old-fwd", "fwd-beyond"):
        c = S.ForwardTsnChunk()
        k = op.get("k", 0)
        if kind == "old-fwd":
            # "old" only while it stays less than half the number space behind: the receiver's cumulative TSN moves on
            # between the moment this is built and the moment it arrives, and exactly half the space away is undefined
            k = min(k, 2**30)
        c.cumulative_tsn = (rx._last_received_tsn + (-k if kind == "old-fwd" else k + 1)) % M
        c.streams = [(x[0] & 0xFFFF, x[1] & 0xFFFF) for x in op.get("streams", []) if isinstance(x, (list, tuple)) and len(x) == 2]
        return _packet(tag, bytes(c)), kind == "old-fwd"
    if kind == "data-far":
        base = ((rx._last_received_tsn or 0) + op.get("k", 0xFFFF)) % M
        body = b"".join(bytes(data_chunk((base + i) % M, op.get("stream", 1000), i, 51, op.get("flags", 3), b"far")) for i in range(max(1, min(3, op.get("n", 1)))))
        return _packet(tag, body), False
    if kind == "data-new-stream":
        if op.get("stream", 1000) in rx._data_channels and op.get("ppid") != 50:
            return b"", True
        return _packet(tag, data_chunk(steal_tsn(), op.get("stream", 1000), op.get("seq", 0), op.get("ppid", 50), op.get("flags", 7),
                                       bytes.fromhex(op.get("body", "")))), True
    if kind in ("dcep-existing", "bad-utf8"):
        if not sess.channels:
            return b"", True
        rec = sess.channels[op.get("ch", 0) % len(sess.channels)]
        ch = rec.objs.get(to)
        if ch is None or ch.id is None or ch.readyState != "open":
            return b"", True
        # unordered flag: the stream sequence numbers of the channel are left alone
        ppid = 50 if kind == "dcep-existing" else 51
        return _packet(tag, data_chunk(steal_tsn(), ch.id, 0, ppid, 7, bytes.fromhex(op.get("body", "")))), True
    if kind in ("reconfig-typed", "reconfig-raw"):
        c = S.ReconfigChunk()
        c.params = [(p[0] & 0xFFFF, bytes.fromhex(p[1])) for p in op.get("params", []) if isinstance(p, (list, tuple)) and len(p) == 2]
        pending_close = rx._reconfig_request is not None or any(o.get("op") == "close" for o in sess.case.get("ops", []))
        neutral = kind == "reconfig-typed" and not pending_close
        if kind == "reconfig-raw":
            neutral = all(p[0] not in (13, 16) for p in c.params) and not pending_close
        return _packet(tag, bytes(c)), neutral
    if kind == "bundle-init":
        init = S.InitChunk()
        init.initiate_tag, init.advertised_rwnd, init.outbound_streams, init.inbound_streams, init.initial_tsn = 7, 1 << 20, 10, 10, 99
        second = _raw_chunk(op.get("second", 4), 0, b"\0" * 16)
        return _packet(0, bytes(init) + second), True
    if kind == "abort":
        return _packet(tag, bytes(S.AbortChunk())), False
    if kind == "shutdown":
        c = S.ShutdownChunk()
        c.cumulative_tsn = rx._last_sacked_tsn
        return _packet(tag, bytes(c)), False
    return b"", True


def sctp_budget(sess: Session):
    def budget(side: int, data: bytes) -> int:
        t = sess.sctp[side]
        queued = len(t._sent_queue) + len(t._outbound_queue) + len(t._data_channel_queue)
        held = sum(len(st_.reassembly) for st_ in t._inbound_streams.values())
        return 300 * (len(data) + 64) + 600 * (queued + held) + 30000
    return budget


def run_inject(case: dict) -> Outcome:
    s = Session(case)
    s.meter_budget = sctp_budget(s)
    state = {"neutral": True, "kinds": set(), "effective": 0}
    probes: list = []

    def extra_op(n: int, op: dict) -> None:
        if op.get("op") != "inject" or not s.sctp or s.link is None:
            return
        datagram, neutral = build_injection(s, op)
        if not datagram and op.get("kind") not in ("raw", "mutant"):
            return
        state["kinds"].add(str(op.get("kind")))
        if not neutral:
            state["neutral"] = False
        est = all(t._association_state == t.State.ESTABLISHED for t in s.sctp)
        state["kinds"].add("state=established" if est else "state=handshake")
        if est and s.sctp[op.get("to", 0) % 2]._sent_queue:
            state["kinds"].add("state=data-outstanding")
        s.link.inject(op.get("to", 0) % 2, datagram)
        state["effective"] += 1

    async def after_drain(sess: Session) -> None:
        if not state["neutral"] or not all(sess.was_established):
            return
        for rec in sess.channels:
            for side, ch in list(rec.objs.items()):
                if ch.readyState == "open" and rec.objs.get(1 - side) is not None:
                    value = f"probe.{rec.idx}.{side}".encode()
                    rec.sent[side].append(value)
                    probes.append((rec, side, value))
                    ch.send(value)
        await asyncio.sleep(0)

    s.extra_op = extra_op
    s.after_drain = after_drain
    s.run()
    classes = session_classes(s) | {"inj=" + k for k in state["kinds"]}
    classes.add("all-neutral" if state["neutral"] else "non-neutral")
    nt = state["effective"] > 0 and all(s.was_established)
    cl = tuple(sorted(classes))
    bp = base_problems(s)
    if bp:
        return Outcome(bp[1], bp[0], nt, cl)
    if not state["neutral"]:
        return Outcome(None, None, nt, cl)
    if s.problems:
        kind, msg = s.problems[0]
        return Outcome("after neutral injections only: " + msg, "transcript-" + kind, nt, cl)
    v = drain_verdict(s)
    if v and v[0] == "not-established":
        return Outcome(None, None, False, cl)
    if v and v[0] == "inconclusive":
        return Outcome(None, None, nt, cl, inconclusive=True)
    if v:
        return Outcome("after neutral injections only: " + v[1], "wedged-" + v[0], nt, cl)
    for rec, side, value in probes:
        if value not in rec.delivered[side]:
            return Outcome(f"after neutral injections only: probe on channel {rec.idx} {side}->{1 - side} was never delivered",
                           "wedged-probe-lost", nt, cl)
    return Outcome(None, None, nt, cl)


# --------------------------------------------------------------------------
# family 3: RTP / RTCP datagrams through the real transport dispatch with real receivers and a sender

AUDIO_SSRC, VIDEO_SSRC, RTX_SSRC, SENDER_SSRC = 0x1111, 0x2222, 0x3333, 0x4444
KNOWN_SSRCS = [AUDIO_SSRC, VIDEO_SSRC, RTX_SSRC, SENDER_SSRC]
PT_OPUS, PT_VP8, PT_RTX, PT_H264 = 111, 100, 101, 102
KNOWN_PTS = [PT_OPUS, PT_VP8, PT_RTX, PT_H264, 0, 127]
_CERT = None


def _cert():
    global _CERT
    if _CERT is None:
        from aiortc.rtcdtlstransport import RTCCertificate

        _CERT = RTCCertificate.generateCertificate()
    return _CERT


@st.composite
def rtp_event(draw, counters):
    kind = draw(st.sampled_from(["valid", "valid", "valid", "jump", "mutant", "crafted-ext", "rtx-short", "random", "rtcp", "rtcp",
                                  "rtcp-mutant"]))
    ev = {"dt": draw(st.sampled_from([0, 0, 1, 5, 20, 700]))}
    if kind in ("valid", "jump", "rtx-short"):
        which = draw(st.sampled_from(["audio", "video", "video", "rtx", "h264"]))
        ssrc = {"audio": AUDIO_SSRC, "video": VIDEO_SSRC, "h264": VIDEO_SSRC, "rtx": RTX_SSRC}[which]
        pt = {"audio": PT_OPUS, "video": PT_VP8, "h264": PT_H264, "rtx": PT_RTX}[which]
        c = counters.setdefault(ssrc, {"seq": draw(st.sampled_from([0, 100, 65500, 65530])), "ts": draw(st.sampled_from([0, 2**32 - 5000]))})
        if kind == "jump":
            c["seq"] += draw(st.sampled_from([-200, -99, 127, 128, 129, 1000, 32767, 32768, 40000]))
        else:
            c["seq"] += draw(st.sampled_from([1, 1, 1, 1, 2, 0, -1, 3]))
        if draw(st.integers(0, 2)) == 0:
            c["ts"] += draw(st.sampled_from([960, 3000, 3000, 0, 2**31]))
        if which == "audio":
            payload = draw(st.binary(min_size=0, max_size=20))
        elif which == "video":
            payload = draw(st.one_of(st.just(b"\x10") , st.just(b"\x90\x80\x05"), st.binary(max_size=4))) + draw(st.binary(max_size=20))
        elif which == "h264":
            payload = draw(st.one_of(st.just(b"\x65"), st.just(b"\x7c\x85"), st.just(b"\x78\x00\x03"), st.binary(max_size=3))) + draw(st.binary(max_size=20))
        else:
            osn = draw(st.integers(0, 65535))
            payload = struct.pack("!H", osn) + draw(st.one_of(st.just(b"\x10abc"), st.binary(max_size=10)))
            if kind == "rtx-short":
                payload = payload[: draw(st.integers(0, 1))]
        pkt = R.RtpPacket(payload_type=pt, marker=draw(st.integers(0, 1)), sequence_number=c["seq"] & 0xFFFF,
                          timestamp=c["ts"] & 0xFFFFFFFF, ssrc=ssrc, payload=payload)
        if draw(st.booleans()):
            pkt.extensions.abs_send_time = draw(st.integers(0, 0xFFFFFF))
        if draw(st.integers(0, 3)) == 0:
            pkt.extensions.mid = draw(st.sampled_from(["0", "1", "xx"]))
        ev.update(t="rtp", data=det_serialize(pkt, make_map(ALL_EXT_IDS)).hex())
    elif kind in ("mutant", "crafted-ext", "random"):
        pc = draw(parser_case().filter(lambda c: c["target"] == "rtp"))
        data = bytearray(bytes.fromhex(pc["data"]))
        if len(data) >= 12 and draw(st.booleans()):
            data[8:12] = struct.pack("!L", draw(st.sampled_from(KNOWN_SSRCS)))
            data[1] = (data[1] & 0x80) | draw(st.sampled_from(KNOWN_PTS))
        ev.update(t="rtp", data=bytes(data).hex())
    else:
        pkts = draw(st.lists(rtcp_packet(), min_size=1, max_size=3))
        for pk in pkts:
            for key in ("ssrc", "media_ssrc"):
                if key in pk and draw(st.booleans()):
                    pk[key] = draw(st.sampled_from(KNOWN_SSRCS))
            if pk["k"] in ("sr", "rr") and pk["reports"] and draw(st.booleans()):
                pk["reports"][0]["ssrc"] = draw(st.sampled_from(KNOWN_SSRCS))
            if pk["k"] == "bye" and pk["sources"] and draw(st.integers(0, 3)) == 0:
                pk["sources"][0] = draw(st.sampled_from(KNOWN_SSRCS))
            if pk["k"] == "psfb" and pk["fmt"] == 15 and draw(st.booleans()):
                cnt = draw(st.sampled_from([0, 1, 2, 200, 255]))
                pk["fci"] = (b"REMB" + bytes([cnt]) + draw(st.binary(min_size=3, max_size=3)) + struct.pack("!L", SENDER_SSRC) * min(cnt, 2)).hex()
        data = b"".join(bytes(build_rtcp(pk)) for pk in pkts)
        if kind == "rtcp-mutant":
            data = apply_ops(data, draw(mutation_ops()))
        ev.update(t="rtcp", data=data.hex())
    ev["kind"] = kind
    return ev


@st.composite
def rtp_inject_case(draw, tier="quick"):
    counters: dict = {}
    n = draw(st.integers(1, 40 if tier == "quick" else 120))
    return {"events": [draw(rtp_event(counters)) for _ in range(n)], "probe_seq": draw(st.sampled_from([0, 5000, 65520])),
            "probe_ts": draw(st.sampled_from([0, 2**32 - 20000]))}


def run_rtp_inject(case: dict) -> Outcome:
    import datetime
    import threading

    import aiortc.rtcrtpreceiver as RX
    import aiortc.rtcrtpsender as TX
    from aiortc.rtcdtlstransport import RTCDtlsTransport
    from aiortc.rtcrtpparameters import (RTCRtpCodecParameters, RTCRtpDecodingParameters, RTCRtpHeaderExtensionParameters,
                                         RTCRtpReceiveParameters, RTCRtpRtxParameters)
    from checks.c07_rtp import URIS
    from vlib import vloop
    from vlib.patches import RandomShim, patched, virtual_clocks

    taps: dict = {"audio": [], "video": []}
    result: dict = {"violation": None, "kind": None, "classes": set(), "max_work": 0}

    class Ice:
        role = "controlling"

        async def _send(self, data: bytes) -> None:
            pass

    import queue

    class RecQueue(queue.Queue):
        """The receiver's decoder queue: what is put here is what the decoder would be handed.  Recorded at put() time, on
        the loop, so that nothing depends on when the stand-in decoder thread gets scheduled."""

        def put(self, item, *a, **kw):  # type: ignore[override]
            if item is not None:
                codec, frame = item
                taps["video" if codec.mimeType.lower().startswith("video") else "audio"].append((frame.timestamp, bytes(frame.data)))
            return super().put(item, *a, **kw)

    def make_worker():
        def worker(loop, input_q, output_q):  # stands in for the decoder thread: discards what it is handed
            while True:
                if input_q.get() is None:
                    break
        return worker

    async def main(loop):
        transport = RTCDtlsTransport(Ice(), [_cert()])
        sent: list = []

        async def send_rtp(data: bytes) -> None:
            sent.append(data)

        transport._send_rtp = send_rtp  # type: ignore[method-assign]
        hdr = [RTCRtpHeaderExtensionParameters(id=i, uri=URIS[f]) for f, i in ALL_EXT_IDS.items()]
        audio = RX.RTCRtpReceiver("audio", transport)
        audio._track = RX.RemoteStreamTrack(kind="audio")
        audio._set_rtcp_ssrc(0x9999)
        video = RX.RTCRtpReceiver("video", transport)
        video._track = RX.RemoteStreamTrack(kind="video")
        video._set_rtcp_ssrc(0x9998)
        audio._RTCRtpReceiver__decoder_queue = RecQueue()
        video._RTCRtpReceiver__decoder_queue = RecQueue()
        await audio.receive(RTCRtpReceiveParameters(
            codecs=[RTCRtpCodecParameters(mimeType="audio/opus", clockRate=48000, channels=2, payloadType=PT_OPUS)],
            headerExtensions=hdr, muxId="0", encodings=[RTCRtpDecodingParameters(ssrc=AUDIO_SSRC, payloadType=PT_OPUS)]))
        await video.receive(RTCRtpReceiveParameters(
            codecs=[RTCRtpCodecParameters(mimeType="video/VP8", clockRate=90000, payloadType=PT_VP8),
                    RTCRtpCodecParameters(mimeType="video/rtx", clockRate=90000, payloadType=PT_RTX, parameters={"apt": PT_VP8}),
                    RTCRtpCodecParameters(mimeType="video/H264", clockRate=90000, payloadType=PT_H264)],
            headerExtensions=hdr, muxId="1",
            encodings=[RTCRtpDecodingParameters(ssrc=VIDEO_SSRC, payloadType=PT_VP8, rtx=RTCRtpRtxParameters(ssrc=RTX_SSRC))]))
        sender = TX.RTCRtpSender("video", transport)
        sender._ssrc = SENDER_SSRC
        transport._rtp_router.register_sender(sender, ssrc=SENDER_SSRC)

        async def feed(t: str, data: bytes, budget: int):
            try:
                with work_meter(budget) as m:
                    if t == "rtcp":
                        await transport._handle_rtcp_data(data)
                    else:
                        await transport._handle_rtp_data(data, arrival_time_ms=int(loop.wall() * 1000))
                result["max_work"] = max(result["max_work"], m.count)
                return None
            except Exception as exc:
                return exc

        try:
            for n, ev in enumerate(case.get("events", [])):
                if not isinstance(ev, dict) or "data" not in ev:
                    continue
                if ev.get("dt"):
                    await asyncio.sleep(ev["dt"] / 1000.0)
                try:
                    data = bytes.fromhex(ev["data"])
                except (ValueError, TypeError):
                    continue
                t = "rtcp" if ev.get("t") == "rtcp" else "rtp"
                result["classes"].add("ev=" + str(ev.get("kind")))
                exc = await feed(t, data, 300 * (len(data) + 64) + 400000)
                if exc is not None:
                    fn = "_handle_rtcp_data" if t == "rtcp" else "_handle_rtp_data"
                    if isinstance(exc, WorkBudgetExceeded):
                        result["violation"] = f"event {n}: {fn} on {len(data)} bytes: {exc}"
                        result["kind"] = f"rtp-work:{t}"
                    else:
                        result["violation"] = f"event {n}: {type(exc).__name__} escaped {fn}: {exc!r}"[:300]
                        result["kind"] = f"rtp-raised:{t}:{type(exc).__name__}"
                    return
            # liveness: fresh valid media from new sources must still reach the decoders
            for rcv, name, pt, ssrc, mk in ((audio, "audio", PT_OPUS, 0x7001, lambda i: b"A%03d" % i),
                                            (video, "video", PT_VP8, 0x7002, lambda i: b"\x10V%03d" % i)):
                if rcv._RTCRtpReceiver__decoder_thread is None:
                    result["classes"].add("bye-" + name)
                    continue
                before = len(taps[name])
                # a new source starts at an arbitrary sequence number; one that happens to lie just behind what the
                # receiver's (shared) jitter buffer holds would legitimately be dropped as late, so the probe starts well
                # ahead of the buffer's origin (anchored state) and is longer than twice its capacity
                jb = rcv._RTCRtpReceiver__jitter_buffer
                start = ((jb._origin or 0) + 5000 + case.get("probe_seq", 0)) & 0xFFFF
                count = 2 * jb.capacity + 40
                for i in range(count):
                    pkt = R.RtpPacket(payload_type=pt, marker=1, sequence_number=(start + i) & 0xFFFF,
                                      timestamp=(case.get("probe_ts", 0) + 3000 * i) & 0xFFFFFFFF, ssrc=ssrc, payload=mk(i))
                    exc = await feed("rtp", pkt.serialize(make_map(ALL_EXT_IDS)), 500000)
                    if exc is not None:
                        result["violation"] = f"probe packet {i} on the {name} receiver: {type(exc).__name__} escaped: {exc!r}"[:300]
                        result["kind"] = f"rtp-probe-raised:{type(exc).__name__}"
                        return
                await asyncio.sleep(0.01)
                got = len(taps[name]) - before
                if got < 10:
                    result["violation"] = (f"after the injected datagrams {count} fresh in-order {name} packets from a new source produced "
                                           f"only {got} frames at the decoder (expected at least 10)")
                    result["kind"] = f"rtp-wedged-{name}"
                    return
        finally:
            await audio.stop()
            await video.stop()

    shim_now = lambda: asyncio.get_event_loop().wall()  # noqa: E731
    try:
        with virtual_clocks(shim_now, sctp=False), patched(RX, decoder_worker=make_worker(), random=RandomShim([0.5])):
            vloop.run_sim(main, max_iterations=400000, cpu_seconds=120)
    except vloop.SimAbort as exc:
        return Outcome(f"simulation aborted: {exc!r}", "sim-abort:" + type(exc).__name__, True, tuple(sorted(result["classes"])))
    cl = tuple(sorted(result["classes"]))
    if result["violation"]:
        return Outcome(result["violation"], result["kind"], True, cl)
    nt = any(c in cl for c in ("ev=valid", "ev=jump", "ev=rtcp", "ev=crafted-ext", "ev=rtx-short"))
    return Outcome(None, None, nt, cl, info={"max_work": result["max_work"]})


# --------------------------------------------------------------------------
# family 3b: arbitrary datagrams at the real network entry, RTCDtlsTransport._recv_next, in every state of the transport

FIRST_BYTES = [0, 1, 19, 20, 22, 23, 25, 63, 64, 100, 127, 128, 144, 176, 191, 192, 200, 255]


@st.composite
def raw_datagram(draw):
    kind = draw(st.sampled_from(["empty", "one", "two", "random", "random", "plain-rtp", "plain-rtcp"]))
    if kind == "empty":
        return {"kind": kind, "data": ""}
    if kind == "one":
        return {"kind": kind, "data": bytes([draw(st.sampled_from(FIRST_BYTES))]).hex()}
    if kind == "two":
        return {"kind": kind, "data": bytes([draw(st.sampled_from(FIRST_BYTES)), draw(st.sampled_from([0, 96, 191, 192, 200, 208, 209, 255]))]).hex()}
    if kind == "random":
        first = draw(st.sampled_from(FIRST_BYTES))
        tail = draw(st.binary(max_size=draw(st.sampled_from([3, 11, 12, 13, 40, 200, 1500]))))
        return {"kind": kind, "data": (bytes([first]) + tail).hex()}
    if kind == "plain-rtp":
        pkt = R.RtpPacket(payload_type=96, sequence_number=draw(st.integers(0, 65535)), timestamp=draw(st.integers(0, 2**32 - 1)),
                          ssrc=draw(st.sampled_from([1, 2, 0xFFFFFFFF])), payload=draw(st.binary(max_size=40)))
        return {"kind": kind, "data": pkt.serialize().hex()}
    return {"kind": kind, "data": bytes(R.RtcpRrPacket(ssrc=draw(st.sampled_from([1, 2, 0xFFFFFFFF])))).hex()}


@st.composite
def derived_datagram(draw):
    """Made from a genuine protected datagram of the session (captured at run time)."""
    return {"kind": draw(st.sampled_from(["prefix", "prefix", "flip", "extend", "replay"])), "of": draw(st.sampled_from(["rtp", "rtcp", "data"])),
            "n": draw(st.integers(0, 4000))}


@st.composite
def datagram_case(draw, tier="quick"):
    return {"controlling": draw(st.integers(0, 1)), "roles": draw(st.sampled_from([["client", "server"], ["server", "client"], ["auto", "auto"]])),
            "target": draw(st.integers(0, 1)),
            "pre": draw(st.lists(raw_datagram(), max_size=3)),
            "mid": draw(st.lists(st.tuples(st.integers(0, 8), raw_datagram()).map(list), max_size=4)),
            "post": draw(st.lists(st.one_of(raw_datagram(), derived_datagram()), min_size=1, max_size=12))}


def dtls_class(data: bytes) -> bool:
    return bool(data) and 19 < data[0] < 64


def run_datagrams(case: dict) -> Outcome:
    import aiortc.rtcdtlstransport as D
    from checks.c04_dtls import Ice, build_fingerprints, certs
    from vlib import vloop

    problem: list = []
    classes: set = set()
    target = case.get("target", 0) % 2
    peer = 1 - target

    def hexbytes(x) -> bytes:
        try:
            return bytes.fromhex(x)
        except (ValueError, TypeError):
            return b""

    class InjIce(Ice):
        def __init__(self, role: str) -> None:
            super().__init__(role)
            self.count = 0
            self.inject_after: dict = {}
            self.captured: dict = {}
            self.capture_as = None

        async def _send(self, data: bytes) -> None:
            if self.capture_as is not None:
                self.captured[self.capture_as] = bytes(data)
                self.capture_as = None
            await super()._send(data)
            for extra in self.inject_after.pop(self.count, []):
                await self.peer.queue.put(extra)
            self.count += 1

    async def main(loop: vloop.VLoop) -> None:
        ctrl = case.get("controlling", 0) % 2
        ices = [InjIce("controlling" if ctrl == 0 else "controlled"), InjIce("controlling" if ctrl == 1 else "controlled")]
        ices[0].peer, ices[1].peer = ices[1], ices[0]
        cs = certs()
        ts = [D.RTCDtlsTransport(ices[i], [cs[i]]) for i in (0, 1)]
        got: list = [{"rtp": [], "rtcp": [], "data": []}, {"rtp": [], "rtcp": [], "data": []}]
        for i, t in enumerate(ts):
            role = (case.get("roles") or ["auto", "auto"])[i]
            if role in ("client", "server"):
                t._set_role(role)

            async def rtp_in(data, arrival_time_ms, i=i):
                got[i]["rtp"].append(bytes(data))

            async def rtcp_in(data, i=i):
                got[i]["rtcp"].append(bytes(data))

            t._handle_rtp_data = rtp_in  # type: ignore[method-assign]
            t._handle_rtcp_data = rtcp_in  # type: ignore[method-assign]

            class Sink:
                def __init__(self, i):
                    self.i = i

                async def _handle_data(self, data):
                    got[self.i]["data"].append(bytes(data))

            t._register_data_receiver(Sink(i))
        good = [{"kind": "good", "algo": "sha-256"}]
        params = [D.RTCDtlsParameters(fingerprints=build_fingerprints(good, cs[1 - i])) for i in (0, 1)]
        handshake_dtls = False
        # datagrams that are there before the handshake starts, and some that arrive in the middle of it
        for inj in case.get("pre", []):
            data = hexbytes(inj.get("data")) if isinstance(inj, dict) else b""
            handshake_dtls |= dtls_class(data)
            classes.add("pre:" + str(inj.get("kind") if isinstance(inj, dict) else None))
            ices[target].queue.put_nowait(data)
        for item in case.get("mid", []):
            if not (isinstance(item, (list, tuple)) and len(item) == 2 and isinstance(item[0], int) and isinstance(item[1], dict)):
                continue
            data = hexbytes(item[1].get("data"))
            handshake_dtls |= dtls_class(data)
            classes.add("mid:" + str(item[1].get("kind")))
            ices[peer].inject_after.setdefault(item[0], []).append(data)
        try:
            try:
                await asyncio.wait_for(asyncio.gather(ts[0].start(params[0]), ts[1].start(params[1])), timeout=60)
            except asyncio.TimeoutError:
                classes.add("handshake-timeout")
            except Exception as exc:
                problem.append(("datagram-start-raised:" + type(exc).__name__, f"start() raised {exc!r}"))
                return
            await asyncio.sleep(0.05)
            states = [t.state for t in ts]
            if states != ["connected", "connected"]:
                if handshake_dtls:
                    # records of the DTLS content-type range during the handshake are OpenSSL's to judge (DTLS itself does
                    # not protect a handshake against injected handshake records): nothing to conclude
                    classes.add("handshake-spoiled-by-dtls-class-record")
                    return
                problem.append(("datagram-handshake-broken", f"states {states} after a handshake during which only non-DTLS datagrams were "
                                                             f"injected: pre={case.get('pre')} mid={case.get('mid')}"[:400]))
                return
            classes.add("connected")

            seq = [100]

            async def real(kind: str, src: int, capture: bool = False):
                seq[0] += 1
                if kind == "data":
                    plain = b"data-%d" % seq[0]
                    if capture:
                        ices[src].capture_as = kind
                    await ts[src]._send_data(plain)
                elif kind == "rtp":
                    plain = R.RtpPacket(payload_type=96, sequence_number=seq[0], timestamp=seq[0] * 90, ssrc=5, payload=b"rtp-%d" % seq[0]).serialize()
                    if capture:
                        ices[src].capture_as = kind
                    await ts[src]._send_rtp(plain)
                else:
                    plain = bytes(R.RtcpRrPacket(ssrc=seq[0]))
                    if capture:
                        ices[src].capture_as = kind
                    await ts[src]._send_rtp(plain)
                return plain

            expect: dict = {"rtp": [], "rtcp": [], "data": []}
            for kind in ("rtp", "rtcp", "data"):
                expect[kind].append(await real(kind, peer, capture=True))
            await asyncio.sleep(0.01)
            spoiled = False
            for inj in case.get("post", []):
                if not isinstance(inj, dict):
                    continue
                kind = inj.get("kind")
                if "data" in inj:
                    data = hexbytes(inj.get("data"))
                else:
                    base = ices[peer].captured.get(inj.get("of"))
                    n = inj.get("n", 0) if isinstance(inj.get("n"), int) else 0
                    if not base:
                        continue
                    if kind == "prefix":
                        data = base[:n % len(base)]
                    elif kind == "flip":
                        bit = n % (len(base) * 8)
                        if dtls_class(base) and 88 <= bit < 104:
                            bit += 16  # not the record length field, see DESIGN.md section 6 (OpenSSL answers that with an alert)
                        b = bytearray(base)
                        b[bit // 8] ^= 1 << (bit % 8)
                        data = bytes(b)
                    elif kind == "extend":
                        data = base + bytes([n & 0xFF]) * (1 + n % 7)
                    else:
                        data = base
                classes.add("post:" + str(kind) + (":" + str(inj.get("of")) if "of" in inj else ""))
                if dtls_class(data) and not (kind in ("flip", "replay") or len(data) < 13):
                    # arbitrary or cut / extended record-layer bytes go to OpenSSL, which may answer some of them with a
                    # fatal alert; only what aiortc itself does with them is judged (nothing may raise)
                    spoiled = True
                ices[target].queue.put_nowait(data)
                await asyncio.sleep(0.001)
                # between injections, genuine traffic keeps flowing
                if inj.get("n", 0) % 3 == 0 if isinstance(inj.get("n"), int) else False:
                    expect["rtp"].append(await real("rtp", peer))
            await asyncio.sleep(0.02)
            if ts[target].state != "connected":
                if spoiled:
                    classes.add("closed-after-dtls-class-garbage")
                    return
                problem.append(("datagram-killed-transport", f"the receiving transport is {ts[target].state!r} after the injected datagrams "
                                                             f"{[(i.get('kind'), i.get('of'), (i.get('data') or '')[:24]) for i in case.get('post', []) if isinstance(i, dict)]}"[:500]))
                return
            # liveness: genuine traffic in both directions is still delivered
            for kind in ("rtp", "rtcp", "data", "rtp", "data"):
                expect[kind].append(await real(kind, peer))
            back = {"rtp": [await real("rtp", target)], "rtcp": [await real("rtcp", target)], "data": [await real("data", target)]}
            await asyncio.sleep(0.05)
            for kind in ("rtp", "rtcp", "data"):
                missing = [x for x in expect[kind] if x not in got[target][kind]]
                forged = [x for x in got[target][kind] if x not in expect[kind]]
                if forged:
                    problem.append(("datagram-forged-delivery", f"{kind}: the transport handed over {len(forged)} unit(s) nobody sent: {forged[0][:40]!r}"))
                    return
                if missing and not spoiled:
                    problem.append(("datagram-traffic-lost", f"{kind}: {len(missing)} of {len(expect[kind])} genuine units sent around the injected "
                                                             f"datagrams were not delivered"))
                    return
                if [x for x in back[kind] if x not in got[peer][kind]] and not spoiled:
                    problem.append(("datagram-traffic-lost", f"{kind}: the return direction stopped working"))
                    return
        finally:
            for t in ts:
                try:
                    await asyncio.wait_for(t.stop(), 10)
                except Exception:
                    pass
            for ice in ices:
                await ice.stop()
            await asyncio.sleep(0.01)

    try:
        errors = vloop.run_sim(main, max_iterations=400000, cpu_seconds=120)
    except vloop.SimAbort as exc:
        return Outcome(f"simulation aborted: {exc!r}", "sim-abort:" + type(exc).__name__, True, tuple(sorted(classes)))
    cl = tuple(sorted(classes))
    nt = "connected" in classes
    if problem:
        return Outcome(problem[0][1], problem[0][0], nt, cl)
    return Outcome(None, None, nt, cl)


# --------------------------------------------------------------------------
# family 4: coverage-guided byte-level fuzzing (atheris / libFuzzer), same oracle as `parsers`

FUZZ_TARGETS = ["sctp_packet_crc", "sctp_packet", "sctp_params", "reconfig_param", "rtp", "rtp2", "unwrap_rtx", "rtcp", "remb", "hdrext", "h264", "vp8"]


def fuzz_shards(tier: str) -> int:
    return 2 * len(FUZZ_TARGETS)  # every target from an empty corpus and from the repository's sample packets


def run_fuzz(tier: str, seed: int, shard: int, nshards: int):
    import glob
    import os
    import shutil
    import subprocess
    import tempfile
    from pathlib import Path

    from vlib.runner import ROOT, Stats

    stats = Stats()
    target = FUZZ_TARGETS[shard % len(FUZZ_TARGETS)]
    seeded = shard >= len(FUZZ_TARGETS)
    runs = 150000 if tier == "quick" else 4000000
    name = f"fuzz:{target}:{'seeded' if seeded else 'empty'}"
    try:
        import atheris  # noqa: F401
    except Exception:
        stats.classes["fuzz:atheris-unavailable"] = 1
        return stats
    work = Path(tempfile.mkdtemp(prefix="c05fuzz."))
    try:
        corpus = work / "corpus"
        corpus.mkdir()
        if seeded:
            src = os.environ.get("VERIF_REPO_SRC", "/repo/src")
            tests = Path(src).parent / "tests"
            pats = {"sctp": "sctp_*.bin", "rtcp": "rtcp_*.bin", "rtp": "rtp*.bin", "unwrap": "rtp*.bin", "remb": "rtcp_psfb*.bin",
                    "h264": "h264*.bin", "vp8": "vp*.bin", "reconfig": "sctp_reconfig*.bin", "hdrext": "rtp_with*.bin"}
            pat = next((v for k, v in pats.items() if target.startswith(k)), "*.bin")
            for f in sorted(glob.glob(str(tests / pat)))[:40]:
                shutil.copy(f, corpus / os.path.basename(f))
        env = dict(os.environ)
        cmd = [str(ROOT / "fuzz" / "fuzz_parsers.py"), target, str(corpus), f"-runs={runs}", f"-seed={seed * 1000 + shard + 1}", "-max_len=1500",
               "-timeout=120", f"-artifact_prefix={work}/", "-print_final_stats=1", "-verbosity=0"]
        p = subprocess.run(cmd, cwd=work, env=env, stdout=subprocess.PIPE, stderr=subprocess.STDOUT, text=True, timeout=3600)
        done = 0
        for line in p.stdout.splitlines():
            if line.startswith("stat::number_of_executed_units:"):
                done = int(line.split()[-1])
        interesting = sorted(os.listdir(corpus))
        stats.evaluations = done
        stats.per_family["fuzz"] = {"evaluations": done, "nontrivial": len(interesting)}
        for f in interesting:
            stats.nontrivial.add(f"{target}:{f}")
        stats.classes[name + ":corpus"] = len(interesting)
        if interesting and shard % len(FUZZ_TARGETS) == 0:
            stats.samples.append({"family": "fuzz", "case": {"target": target, "corpus_mode": "seeded" if seeded else "empty",
                                                             "data": (corpus / interesting[0]).read_bytes()[:200].hex()}})
        arts = [f for f in os.listdir(work) if f.startswith(("crash-", "timeout-", "oom-"))]
        for a in arts[:3]:
            raw = (work / a).read_bytes()
            from fuzz.fuzz_parsers_split import split  # the same input decoding as the fuzz target

            payload, aux = split(target, raw)
            case = {"target": target, "mode": "fuzz", "data": payload.hex(), "aux": aux}
            out = run_parser(case)
            if not out.violation:
                # the deciding oracle is the deterministic one (exceptions + executed-line budget) on the saved input; an
                # artefact that passes it is libFuzzer's wall-clock / memory limit on a busy machine, not a violation
                stats.inconclusive += 1
                stats.classes[name + ":unreproduced-" + a.split("-")[0]] = stats.classes.get(name + ":unreproduced-" + a.split("-")[0], 0) + 1
                continue
            stats.violations.append(("parsers", case, out.violation, out.kind))
            stats.violation_counts[f"fuzz/{out.kind}"] = stats.violation_counts.get(f"fuzz/{out.kind}", 0) + 1
        if p.returncode != 0 and not arts:
            stats.errors.append(f"{name}: fuzzer exited with {p.returncode}: {p.stdout[-800:]}")
    finally:
        shutil.rmtree(work, ignore_errors=True)
    return stats


CHECK = Check(
    prop="C05",
    level="exploration",
    rule=(
        "parsers: for each wire parser (parse_packet with and without re-computed CRC32c, decode_params, RE-CONFIG parameter "
        "parse, RtpPacket.parse with all seven header extensions mapped to one-byte and two-byte ids, RTX unwrap, "
        "RtcpPacket.parse, unpack_remb_fci, unpack_header_extensions, H264/VP8 payload descriptors) inputs are random bytes, "
        "valid packets from the C07/C08 generators under 0-4 byte-level mutations (truncate, set 8/16-bit field, bit flip, "
        "insert, duplicate slice, zero, extend) and crafted length/count/size conflicts. Oracle: the parser returns or raises "
        "ValueError (UnicodeError does not count), and executes at most 200*(len+64) aiortc lines (sys.monitoring counter). "
        "Non-trivial = the input was accepted or passed the checksum layer."
        " Family datagrams: arbitrary datagrams (empty, 1-2 bytes of every demultiplexing class, random, unprotected RTP/RTCP, prefixes / bit flips / extensions / replays of genuine protected datagrams) through RTCDtlsTransport._recv_next of a real transport pair before, during and after the handshake; the handshake completes, the transport stays connected, nothing is handed over that nobody sent and genuine traffic keeps arriving both ways."
    ),
    families=[
        Family("parsers", run_parser, parser_case, quick=20000, thorough=600000, min_shard=500),
        Family("sctp-inject", run_inject, inject_case, quick=2500, thorough=80000, min_shard=20),
        Family("rtp-inject", run_rtp_inject, rtp_inject_case, quick=1500, thorough=50000, min_shard=20),
        Family("datagrams", run_datagrams, datagram_case, quick=2500, thorough=60000, min_shard=20),
        Family("fuzz", run_parser, custom=run_fuzz, custom_shards=fuzz_shards),
    ],
    floor=500,
    assumptions=["work is measured as executed Python lines/jumps inside aiortc (deterministic), not wall time"],
)
