"""C05 - no received datagram can crash, hang or wedge the receive path.

Three layers (DESIGN.md section 2/C05):
  parsers      every wire parser on random bytes and structure-aware mutants of valid packets:
               returns or raises ValueError, bounded work (deterministic line counter)
  sctp-inject  datagrams injected into a live SCTP association in every protocol state; nothing
               escapes _handle_data, bounded work, and after neutral injections the association
               still carries fresh valid messages
  rtp-inject   RTP/RTCP datagrams through the real RTCDtlsTransport._handle_rtp_data /
               _handle_rtcp_data with real receivers and a sender registered; nothing escapes,
               bounded work, fresh valid media still reaches the decoder afterwards
  fuzz         atheris coverage-guided campaigns over the same parser oracle (see fuzz/)
"""

from __future__ import annotations

import asyncio
import struct

from hypothesis import strategies as st

import aiortc.rtcsctptransport as S
import aiortc.rtp as R
from aiortc.codecs.h264 import H264PayloadDescriptor
from aiortc.codecs.vpx import VpxPayloadDescriptor
from checks.c07_rtp import build_rtcp, make_map, make_rtp, rtcp_packet, rtp_case
from checks.c08_sctp_codec import build_chunk, chunk_spec
from google_crc32c import value as crc32c
from vlib.runner import Check, Family, Outcome
from vlib.workmeter import WorkBudgetExceeded, work_meter

U8 = st.integers(0, 255)
U16 = st.one_of(st.sampled_from([0, 1, 2, 3, 4, 0x7FFF, 0x8000, 0xFFFE, 0xFFFF]), st.integers(0, 0xFFFF))
U32 = st.one_of(st.sampled_from([0, 1, 0x7FFFFFFF, 0x80000000, 0xFFFFFFFE, 0xFFFFFFFF]), st.integers(0, 0xFFFFFFFF))

ALL_EXT_IDS = {"mid": 1, "repaired_rtp_stream_id": 2, "rtp_stream_id": 3, "abs_send_time": 4,
               "transmission_offset": 5, "audio_level": 6, "transport_sequence_number": 7}
ALL_EXT_IDS_2 = {"mid": 15, "repaired_rtp_stream_id": 16, "rtp_stream_id": 200, "abs_send_time": 254,
                 "transmission_offset": 255, "audio_level": 17, "transport_sequence_number": 100}


# --------------------------------------------------------------------------
# byte-level mutation of valid packets


@st.composite
def mutation_ops(draw, max_ops=4):
    ops = []
    for _ in range(draw(st.integers(0, max_ops))):
        kind = draw(st.sampled_from(["trunc", "set8", "set16", "flip", "insert", "dup", "zero", "extend"]))
        ops.append([kind, draw(st.integers(0, 10000)), draw(st.one_of(
            st.sampled_from([0, 1, 2, 3, 4, 5, 7, 8, 0xFF, 0xFFFF, 0xFFFE, 0x8000, 0x100]), st.integers(0, 0xFFFF)))])
    return ops


def apply_ops(data: bytes, ops: list) -> bytes:
    b = bytearray(data)
    for kind, where, value in ops:
        n = len(b)
        if kind == "extend":
            b += bytes([(value + i) & 0xFF for i in range(where % 40)])
            continue
        if n == 0:
            continue
        pos = where % n
        if kind == "trunc":
            del b[pos:]
        elif kind == "set8":
            b[pos] = value & 0xFF
        elif kind == "set16":
            pos = (pos // 2) * 2  # fields are 16-bit aligned in all these formats
            b[pos:pos + 2] = struct.pack("!H", value & 0xFFFF)[: max(0, min(2, n - pos))]
        elif kind == "flip":
            b[pos] ^= 1 << (value % 8)
        elif kind == "insert":
            b[pos:pos] = bytes([value & 0xFF] * (1 + value % 5))
        elif kind == "dup":
            b[pos:pos] = b[pos:pos + 4 + value % 28]
        elif kind == "zero":
            b[pos:pos + 4] = b"\0" * len(b[pos:pos + 4])
    return bytes(b[:1500])


def fix_crc(data: bytes) -> bytes:
    if len(data) < 12:
        return data
    body = data[0:8] + b"\0\0\0\0" + data[12:]
    return data[0:8] + struct.pack("<L", crc32c(body)) + data[12:]


# --------------------------------------------------------------------------
# family 1: parsers

TARGETS = ["sctp_packet", "sctp_packet_crc", "sctp_params", "reconfig_param", "rtp", "rtp2", "rtcp", "remb", "hdrext",
           "h264", "vp8", "unwrap_rtx"]


@st.composite
def parser_case(draw, tier="quick"):
    target = draw(st.sampled_from(TARGETS))
    mode = draw(st.sampled_from(["random", "mutant", "mutant", "mutant", "crafted"]))
    aux = {}
    if target in ("sctp_packet", "sctp_packet_crc"):
        spec = draw(chunk_spec(tier))
        base = S.serialize_packet(spec["sport"], spec["dport"], spec["tag"], build_chunk(spec["chunk"]))
        if mode == "crafted":
            # arbitrary chunk type / flags / declared length / body
            body = draw(st.binary(max_size=64))
            declared = draw(st.one_of(st.just(len(body) + 4), st.integers(0, 80), st.sampled_from([0, 1, 3, 4, 0xFFFF])))
            base = struct.pack("!HHLL", 5000, 5000, 1, 0) + struct.pack("!BBH", draw(U8), draw(U8), declared) + body
    elif target == "sctp_params":
        params = draw(st.lists(st.tuples(U16, st.binary(max_size=20)), max_size=5))
        base = S.encode_params(params)
        if mode == "crafted":
            base = struct.pack("!HH", draw(U16), draw(st.integers(0, 12))) + draw(st.binary(max_size=12))
    elif target == "reconfig_param":
        aux["ptype"] = draw(st.sampled_from([13, 16, 17]))
        base = draw(st.binary(max_size=40))
    elif target in ("rtp", "rtp2", "unwrap_rtx"):
        c = draw(rtp_case(tier))
        c["ext"]["ids"] = dict(ALL_EXT_IDS if target != "rtp2" else ALL_EXT_IDS_2)
        try:
            base = make_rtp(c).serialize(make_map(c["ext"]["ids"]))
        except Exception:
            base = make_rtp({**c, "ext": {"ids": {}, "values": {}}}).serialize()
        if mode == "crafted":
            # extension block with arbitrary (id, length, value) elements: wrong sizes for the configured URIs
            one = target != "rtp2"
            elems = b""
            for _ in range(draw(st.integers(1, 6))):
                xid = draw(st.integers(1, 14)) if one else draw(st.sampled_from([15, 16, 17, 100, 200, 254, 255, 1, 0]))
                val = draw(st.binary(max_size=8))
                if one:
                    if not val:
                        val = b"\0"
                    elems += bytes([(xid << 4) | ((len(val) - 1) & 0xF)]) + val
                else:
                    elems += bytes([xid, len(val)]) + val
            elems += b"\0" * (-len(elems) % 4)
            hdr = struct.pack("!BBHLL", 0x90, c["pt"], c["seq"], c["ts"], c["ssrc"])
            base = hdr + struct.pack("!HH", 0xBEDE if one else 0x1000, len(elems) // 4) + elems + bytes.fromhex(c["payload"])[:50]
    elif target == "rtcp":
        pkts = draw(st.lists(rtcp_packet(), min_size=1, max_size=3))
        base = b"".join(bytes(build_rtcp(p)) for p in pkts)
        if mode == "crafted":
            body = draw(st.binary(max_size=60).map(lambda b: b + b"\0" * (-len(b) % 4)))
            base = struct.pack("!BBH", 0x80 | draw(st.integers(0, 63)), draw(st.sampled_from([200, 201, 202, 203, 205, 206, 204, 207])),
                               len(body) // 4) + body
    elif target == "remb":
        base = R.pack_remb_fci(draw(st.integers(0, 2**64 - 1)), draw(st.lists(U32, max_size=6)))
        if mode == "crafted":
            base = b"REMB" + bytes([draw(U8)]) + draw(st.binary(min_size=3, max_size=20))
    elif target == "hdrext":
        aux["profile"] = draw(st.sampled_from([0xBEDE, 0x1000, 0x1001, 0]))
        base = draw(st.binary(max_size=40))
    elif target == "h264":
        base = bytes([draw(st.sampled_from([24, 28, 1, 5, 7, 25, 29, 0, 31])) | draw(st.sampled_from([0, 0x60, 0x80]))]) + draw(st.binary(max_size=60))
    else:  # vp8
        base = draw(st.binary(max_size=12))
    if mode == "random":
        data = draw(st.binary(max_size=draw(st.sampled_from([0, 3, 11, 12, 15, 16, 20, 64, 1200]))))
    else:
        data = apply_ops(base, draw(mutation_ops()))
    if target == "sctp_packet_crc":
        data = fix_crc(data)
    return {"target": target, "mode": mode, "data": data.hex(), "aux": aux}


def call_parser(target: str, data: bytes, aux: dict):
    if target in ("sctp_packet", "sctp_packet_crc"):
        return S.parse_packet(data)
    if target == "sctp_params":
        return S.decode_params(data)
    if target == "reconfig_param":
        return S.RECONFIG_PARAM_TYPES[aux["ptype"]].parse(data)
    if target == "rtp":
        return R.RtpPacket.parse(data, make_map(ALL_EXT_IDS))
    if target == "rtp2":
        return R.RtpPacket.parse(data, make_map(ALL_EXT_IDS_2))
    if target == "unwrap_rtx":
        # what RTCRtpReceiver does with an RTX packet: parse, then unwrap when the payload has >= 2 bytes
        p = R.RtpPacket.parse(data, make_map(ALL_EXT_IDS))
        if len(p.payload) >= 2:
            return R.unwrap_rtx(p, payload_type=96, ssrc=1234)
        return p
    if target == "rtcp":
        return R.RtcpPacket.parse(data)
    if target == "remb":
        return R.unpack_remb_fci(data)
    if target == "hdrext":
        return R.unpack_header_extensions(aux["profile"], data)
    if target == "h264":
        return H264PayloadDescriptor.parse(data)
    if target == "vp8":
        return VpxPayloadDescriptor.parse(data)
    raise KeyError(target)


def work_budget(nbytes: int) -> int:
    # generous: ~200 executed lines per input byte plus a constant
    return 200 * (nbytes + 64)


def run_parser(case: dict) -> Outcome:
    target, data, aux = case["target"], bytes.fromhex(case["data"]), case.get("aux", {})
    classes = [f"target={target}", f"mode={case.get('mode')}"]
    accepted = False
    try:
        with work_meter(work_budget(len(data))) as m:
            call_parser(target, data, aux)
        accepted = True
    except ValueError:
        pass  # includes UnicodeDecodeError, which is a ValueError and is caught as one by every caller
    except WorkBudgetExceeded as exc:
        return Outcome(f"{target} on {len(data)} bytes: {exc} (endless or disproportionate loop)",
                       f"parser-work:{target}", True, tuple(classes))
    except Exception as exc:
        return Outcome(f"{target} raised {type(exc).__name__}: {exc!r} on {len(data)} bytes"[:300],
                       f"parser-raised:{target}:{type(exc).__name__}", True, tuple(classes))
    classes.append("accepted" if accepted else "rejected")
    # non-trivial: reached past the first validation layer
    nt = accepted or target in ("sctp_packet_crc",)
    return Outcome(None, None, nt, tuple(classes))


CHECK = Check(
    prop="C05",
    level="exploration",
    rule=(
        "parsers: for each wire parser (parse_packet with and without re-computed CRC32c, decode_params, RE-CONFIG parameter "
        "parse, RtpPacket.parse with all seven header extensions mapped to one-byte and two-byte ids, RTX unwrap, "
        "RtcpPacket.parse, unpack_remb_fci, unpack_header_extensions, H264/VP8 payload descriptors) inputs are random bytes, "
        "valid packets from the C07/C08 generators under 0-4 byte-level mutations (truncate, set 8/16-bit field, bit flip, "
        "insert, duplicate slice, zero, extend) and crafted length/count/size conflicts. Oracle: the parser returns or raises "
        "ValueError (UnicodeError does not count), and executes at most 200*(len+64) aiortc lines (sys.monitoring counter). "
        "Non-trivial = the input was accepted or passed the checksum layer."
    ),
    families=[
        Family("parsers", run_parser, parser_case, quick=20000, thorough=600000, min_shard=500),
    ],
    floor=500,
    assumptions=["work is measured as executed Python lines/jumps inside aiortc (deterministic), not wall time"],
)
