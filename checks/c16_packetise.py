"""C16 - H.264 and VP8 packetisation is lossless and respects the payload limit."""

from __future__ import annotations

from hypothesis import strategies as st

from aiortc.codecs import depayload
from aiortc.codecs.h264 import H264Encoder, H264PayloadDescriptor
from aiortc.codecs.vpx import Vp8Encoder, VpxPayloadDescriptor
from aiortc.rtcrtpparameters import RTCRtpCodecParameters
from vlib.runner import Check, Family, Outcome

H264 = RTCRtpCodecParameters(mimeType="video/H264", clockRate=90000, payloadType=100)
VP8 = RTCRtpCodecParameters(mimeType="video/VP8", clockRate=90000, payloadType=97)
LIMIT = 1300

BOUNDARY_SIZES = (
    [2, 3, 4, 100, 600, 647, 648, 649, 650, 1294, 1295, 1296, 1297, 1298, 1299, 1300, 1301, 1302, 1303]
    + [k * 1298 + d for k in (1, 2, 3, 5) for d in (-1, 0, 1, 2, 3)]
    + [2595, 2596, 2597, 2598, 2599, 2600, 60000]
)


def nal_bytes(hdr: int, size: int, fill: int) -> bytes:
    """Deterministic NAL unit: header byte + body without 00 00 0x sequences and
    not ending in 00 (what an encoder with emulation prevention emits)."""
    body = bytearray(size - 1)
    f = (fill % 251) + 1
    for i in range(size - 1):
        v = (i * f + fill) % 255 + 1
        body[i] = v
    # sprinkle isolated zeros (never two in a row, never last)
    if fill % 3 == 0:
        for i in range(5, size - 2, 97):
            body[i] = 0
    return bytes([hdr]) + bytes(body)


@st.composite
def h264_case(draw, tier="quick"):
    n = draw(st.integers(1, 12))
    nals = []
    for _ in range(n):
        hdr = (draw(st.integers(0, 1)) << 7) | (draw(st.integers(0, 3)) << 5) | draw(st.integers(1, 23))
        size = draw(st.one_of(st.sampled_from(BOUNDARY_SIZES), st.integers(2, 400), st.integers(2, 6000),
                              st.integers(2, 60000)))
        nals.append({"hdr": hdr, "size": size, "fill": draw(st.integers(0, 1000)), "sc": draw(st.sampled_from([3, 4]))})
    return {"nals": nals}


def run_h264(case: dict) -> Outcome:
    nals = [nal_bytes(n["hdr"], max(2, n["size"]), n["fill"]) for n in case["nals"]]
    if not nals:
        return Outcome()
    buf = b"".join((b"\0\0\1" if n["sc"] == 3 else b"\0\0\0\1") + d for n, d in zip(case["nals"], nals))
    classes = set()
    try:
        split = list(H264Encoder._split_bitstream(buf))
        payloads = H264Encoder._packetize(split)
    except Exception as exc:
        return Outcome(f"packetiser raised {exc!r}", "h264-raised:" + type(exc).__name__, True)
    if split != nals:
        return Outcome("_split_bitstream did not recover the NAL units", "h264-split", True)
    for p in payloads:
        if len(p) > LIMIT:
            return Outcome(f"payload of {len(p)} bytes exceeds {LIMIT}", "h264-too-large", True)
    # lossless
    try:
        out = b"".join(depayload(H264, p) for p in payloads)
    except Exception as exc:
        return Outcome(f"depayload raised {exc!r}", "h264-depayload-raised", True)
    want = b"".join(b"\0\0\0\1" + n for n in nals)
    if out != want:
        return Outcome(f"depayloaded stream differs from the bitstream (lengths {len(out)} vs {len(want)})", "h264-lossy", True)
    # structure
    i = 0  # index of next expected NAL
    k = 0
    while k < len(payloads):
        p = payloads[k]
        t = p[0] & 0x1F
        if 1 <= t <= 23:
            if i >= len(nals) or p != nals[i]:
                return Outcome("single NAL packet is not the next NAL unit", "h264-single", True)
            i += 1
            k += 1
            classes.add("single")
        elif t == 24:
            pos = 1
            count = 0
            while pos < len(p):
                ln = int.from_bytes(p[pos:pos + 2], "big")
                unit = p[pos + 2:pos + 2 + ln]
                if i >= len(nals) or unit != nals[i]:
                    return Outcome("aggregated NAL unit not recovered whole / in order", "h264-stap", True)
                i += 1
                count += 1
                pos += 2 + ln
            k += 1
            classes.add("stap-a")
        elif t == 28:
            if i >= len(nals):
                return Outcome("FU-A beyond the NAL list", "h264-fua", True)
            orig = nals[i]
            frags = []
            while k < len(payloads) and (payloads[k][0] & 0x1F) == 28:
                frags.append(payloads[k])
                k += 1
                if frags[-1][1] & 0x40:
                    break
            starts = sum(1 for f in frags if f[1] & 0x80)
            ends = sum(1 for f in frags if f[1] & 0x40)
            if starts != 1 or ends != 1 or not (frags[0][1] & 0x80) or not (frags[-1][1] & 0x40):
                return Outcome(f"FU-A markers wrong: {starts} start, {ends} end", "h264-fua-markers", True)
            for f in frags:
                if (f[0] & 0xE0) != (orig[0] & 0xE0) or (f[1] & 0x1F) != (orig[0] & 0x1F):
                    return Outcome("FU-A indicator/header bits differ from the NAL header", "h264-fua-header", True)
            if b"".join(f[2:] for f in frags) != orig[1:]:
                return Outcome("FU-A fragments do not concatenate to the NAL unit", "h264-fua-data", True)
            i += 1
            classes.add("fu-a")
        else:
            return Outcome(f"unexpected payload NAL type {t}", "h264-type", True)
    if i != len(nals):
        return Outcome("not all NAL units were emitted", "h264-missing", True)
    nt = "fu-a" in classes or "stap-a" in classes
    return Outcome(None, None, nt, tuple(sorted(classes)))


def enum_h264(tier: str):
    sizes = list(range(1290, 1310)) + list(range(2590, 2605)) + list(range(3890, 3900))
    if tier == "thorough":
        sizes = list(range(2, 5400))
    for s in sizes:
        yield {"nals": [{"hdr": 0x65, "size": s, "fill": s, "sc": 4}]}
    # pairs around the STAP-A budget
    rng = range(640, 656) if tier == "quick" else range(2, 1300, 3)
    for a in rng:
        for b in (1297 - 4 - a - 1, 1297 - 4 - a, 1297 - 4 - a + 1, 1297 - 4 - a + 2, 1297 - 4 - a + 3):
            if b >= 2:
                yield {"nals": [{"hdr": 0x41, "size": a, "fill": 1, "sc": 3}, {"hdr": 0x27, "size": b, "fill": 2, "sc": 4},
                                {"hdr": 0x28, "size": 5, "fill": 3, "sc": 4}]}


# --- VP8 ----------------------------------------------------------------------

def vp8_buffer(size: int, fill: int) -> bytes:
    return bytes(((i * 131 + fill) ^ (i >> 8)) & 0xFF for i in range(size))


VP8_SIZES = [0, 1, 2, 1295, 1296, 1297, 1298, 1299, 2592, 2593, 2594, 2595, 2596, 3888, 3891, 60000]


def run_vp8(case: dict) -> Outcome:
    buf = vp8_buffer(case["size"], case["fill"])
    pid = case["picture_id"]
    try:
        payloads = Vp8Encoder._packetize(buf, pid)
    except Exception as exc:
        return Outcome(f"packetiser raised {exc!r}", "vp8-raised", True)
    nt = len(payloads) > 1 or pid >= 128
    for j, p in enumerate(payloads):
        if len(p) > LIMIT:
            return Outcome(f"payload of {len(p)} bytes exceeds {LIMIT}", "vp8-too-large", nt)
        try:
            d, rest = VpxPayloadDescriptor.parse(p)
        except Exception as exc:
            return Outcome(f"descriptor parse raised {exc!r}", "vp8-parse-raised", nt)
        if d.partition_start != (1 if j == 0 else 0):
            return Outcome(f"packet {j} has S={d.partition_start}", "vp8-start-bit", nt)
        if d.picture_id != pid:
            return Outcome(f"packet {j} carries picture id {d.picture_id}, frame has {pid}", "vp8-picture-id", nt)
        if not rest:
            return Outcome("empty VP8 payload", "vp8-empty", nt)
    out = b"".join(depayload(VP8, p) for p in payloads)
    if out != buf:
        return Outcome("depayloaded bytes differ from the frame buffer", "vp8-lossy", nt)
    return Outcome(None, None, nt, ("multi" if len(payloads) > 1 else "single", "pid15" if pid >= 128 else "pid7"))


def enum_vp8(tier: str):
    pids = range(0, 1 << 15) if tier == "thorough" else list(range(0, 300)) + list(range(32700, 32768))
    for pid in pids:
        yield {"size": 10, "fill": pid, "picture_id": pid}
    sizes = list(range(1290, 1302)) + list(range(2585, 2600))
    if tier == "thorough":
        sizes = list(range(0, 5300))
    for s in sizes:
        for pid in (5, 127, 128, 32767):
            yield {"size": s, "fill": 7, "picture_id": pid}


def run_vpx_descr(case: dict) -> Outcome:
    tid = tuple(case["tid"]) if case["tid"] is not None else None
    d = VpxPayloadDescriptor(partition_start=case["s"], partition_id=case["pid"], picture_id=case["picture_id"],
                             tl0picidx=case["tl0"], tid=tid, keyidx=case["keyidx"])
    rest = bytes.fromhex(case["rest"])
    try:
        d2, r2 = VpxPayloadDescriptor.parse(bytes(d) + rest)
    except Exception as exc:
        return Outcome(f"parse(bytes(d)) raised {exc!r}", "vpx-descr-raised", True)
    for f in ("partition_start", "partition_id", "picture_id", "tl0picidx", "tid", "keyidx"):
        if getattr(d, f) != getattr(d2, f):
            return Outcome(f"descriptor field {f}: {getattr(d, f)!r} -> {getattr(d2, f)!r}", "vpx-descr-field", True)
    if r2 != rest:
        return Outcome("descriptor parse consumed payload bytes", "vpx-descr-rest", True)
    return Outcome(None, None, True)


OPT = lambda s: st.one_of(st.none(), s)  # noqa: E731

CHECK = Check(
    prop="C16",
    level="exploration",
    rule=(
        "H.264: lists of 1-12 NAL units (F/NRI/type 1-23 header, sizes from boundary pools around 1297-1303, "
        "multiples of the 1298-byte fragment size, and arbitrary up to 60000, 3-/4-byte start codes) through "
        "_split_bitstream + _packetize; VP8: buffers 0-60000 bytes x picture ids; descriptors over all field "
        "combinations. Oracle: every payload <= 1300 bytes, depayload concatenation equals the bitstream, FU-A "
        "one S/one E with original header bits, STAP-A units whole, VP8 S bit only on the first payload, picture "
        "id on every payload. Non-trivial = a unit was fragmented or aggregated / VP8 frame has >1 payload or a "
        "15-bit picture id / every descriptor case. Enumerations: NAL sizes in boundary windows, VP8 picture ids."
    ),
    families=[
        Family("h264", run_h264, lambda tier: h264_case(tier), quick=2500, thorough=100000),
        Family("h264-enum", run_h264, enumerate=enum_h264,
               exhaustive_note="single NAL sizes (quick: windows 1290-1309, 2590-2604, 3890-3899; thorough: all 2..5399) and NAL pairs around the STAP-A budget"),
        Family("vp8", run_vp8,
               lambda tier: st.fixed_dictionaries({
                   "size": st.one_of(st.sampled_from(VP8_SIZES), st.integers(0, 6000), st.integers(0, 60000)),
                   "fill": st.integers(0, 255),
                   "picture_id": st.one_of(st.sampled_from([0, 127, 128, 32767]), st.integers(0, 32767))}),
               quick=1500, thorough=60000),
        Family("vp8-enum", run_vp8, enumerate=enum_vp8,
               exhaustive_note="picture ids (thorough: all 2^15; quick: 0-299 and 32700-32767) and buffer sizes around multiples of the fragment size (thorough: all 0..5299)"),
        Family("vpx-descr", run_vpx_descr,
               lambda tier: st.fixed_dictionaries({
                   "s": st.integers(0, 1), "pid": st.integers(0, 15),
                   "picture_id": OPT(st.one_of(st.sampled_from([0, 127, 128, 32767]), st.integers(0, 32767))),
                   "tl0": OPT(st.integers(0, 255)), "tid": OPT(st.tuples(st.integers(0, 3), st.integers(0, 1)).map(list)),
                   "keyidx": OPT(st.integers(0, 31)), "rest": st.binary(max_size=8).map(bytes.hex)}),
               quick=3000, thorough=100000),
    ],
    floor=500,
    assumptions=["NAL units contain no start-code emulation and do not end in 0x00 (what an encoder emits)"],
)
