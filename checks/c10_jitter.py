"""C10 - jitter buffer releases only whole, correctly ordered frames and stays
bounded.  Token-based oracle: every arrival carries a unique self-delimiting
token as its depayloaded data, so a released frame can be decoded back into the
arrivals it was built from."""

from __future__ import annotations

from hypothesis import strategies as st

from aiortc.jitterbuffer import JitterBuffer
from aiortc.rtp import RtpPacket
from vlib.runner import Check, Family, Outcome

CAPS = [4, 8, 16, 32, 64, 128]


def token(idx: int, dlen: int) -> bytes:
    if dlen <= 0:
        return b""
    fill = max(0, dlen - 5)
    return b"\xa5" + idx.to_bytes(3, "big") + bytes([fill]) + bytes((idx + i) & 0xFF for i in range(fill))


def decode(data: bytes):
    out = []
    pos = 0
    while pos < len(data):
        if data[pos] != 0xA5 or pos + 5 > len(data):
            return None
        idx = int.from_bytes(data[pos + 1:pos + 4], "big")
        fill = data[pos + 4]
        if data[pos + 5:pos + 5 + fill] != bytes((idx + i) & 0xFF for i in range(fill)):
            return None
        out.append(idx)
        pos += 5 + fill
    return out


def mk_packet(seq: int, ts: int, idx: int, dlen: int) -> RtpPacket:
    p = RtpPacket(sequence_number=seq & 0xFFFF, timestamp=ts & 0xFFFFFFFF)
    p._data = token(idx, dlen)  # type: ignore[attr-defined]
    p._idx = idx  # type: ignore[attr-defined]
    return p


class Run:
    """Feeds arrivals [u, ts, dlen] to a JitterBuffer and checks the clauses that
    hold for every history (never raises, frame integrity, capacity, PLI)."""

    def __init__(self, capacity: int, prefetch: int, video: bool) -> None:
        self.jb = JitterBuffer(capacity=capacity, prefetch=prefetch, is_video=video)
        self.video = video
        self.arrivals: list = []  # (seq, ts, dlen)
        self.frames: list = []  # (arrival count at release, decoded idx list, timestamp, data)
        self.classes: set = set()
        self.error: tuple | None = None

    def add(self, u: int, ts: int, dlen: int):
        idx = len(self.arrivals)
        seq = u & 0xFFFF
        ts &= 0xFFFFFFFF
        self.arrivals.append((seq, ts, dlen))
        pkt = mk_packet(seq, ts, idx, dlen)
        before = {id(p): p for p in self.jb._packets if p is not None}
        try:
            pli, frame = self.jb.add(pkt)
        except Exception as exc:
            self.error = (f"add() raised {exc!r} at arrival {idx}", "raised:" + type(exc).__name__)
            return None
        held = [p for p in self.jb._packets if p is not None]
        if len(self.jb._packets) != self.jb.capacity or len(held) > self.jb.capacity:
            self.error = ("buffer holds more than its capacity", "capacity")
            return None
        used: set = set()
        if frame is not None:
            dec = decode(frame.data)
            if dec is None:
                self.error = (f"released frame at arrival {idx} is not a concatenation of arrival payloads", "frame-garbage")
                return None
            err = self._check_frame(dec, frame.timestamp, idx)
            if err:
                self.error = err
                return None
            used = set(dec)
            self.frames.append((idx, dec, frame.timestamp, frame.data))
        # PLI clause (video): packets that left the buffer without being part of the frame
        after = {id(p) for p in held}
        lost = []
        for pid, p in before.items():
            if pid in after or p._idx in used:
                continue
            if frame is not None and not p._data and p.timestamp == frame.timestamp:
                continue  # empty packet of the released frame (not identifiable from data)
            if p.sequence_number == pkt.sequence_number and p.timestamp == pkt.timestamp and p._data == b"" == pkt._data:
                continue
            if p.sequence_number == pkt.sequence_number:
                continue  # replaced by a duplicate of the same sequence number
            lost.append(p)
        if lost:
            self.classes.add("discard")
            if self.video and not pli:
                self.error = (
                    f"video buffer dropped {len(lost)} held packet(s) at arrival {idx} without requesting a key frame",
                    "pli-missing")
                return None
        if pli:
            self.classes.add("pli")
        return frame

    def _check_frame(self, dec: list, ts: int, now: int):
        if not dec:
            if not any(a[2] <= 0 and a[1] == ts for a in self.arrivals[: now + 1]):
                return ("empty frame released with a timestamp no empty packet had", "frame-empty")
            return None
        for i in dec:
            if i > now:
                return ("frame contains a packet that was not added yet", "frame-future")
            if self.arrivals[i][1] != ts:
                return (f"frame with timestamp {ts} contains a packet with timestamp {self.arrivals[i][1]} (splice)", "frame-splice")
        for a, b in zip(dec, dec[1:]):
            sa, sb = self.arrivals[a][0], self.arrivals[b][0]
            d = (sb - sa) & 0xFFFF
            if d == 0 or d >= 0x8000:
                return (f"frame packets out of sequence order ({sa} then {sb})", "frame-order")
            for k in range(1, d):
                s = (sa + k) & 0xFFFF
                if not any(x[0] == s and x[1] == ts and x[2] <= 0 for x in self.arrivals[: now + 1]):
                    return (f"frame has a hole: sequence {s} between {sa} and {sb} was not received", "frame-hole")
        return None


# ---------------------------------------------------------------------------
# family A: arbitrary arrivals


@st.composite
def case_a(draw, tier="quick"):
    cap = draw(st.sampled_from(CAPS))
    base = draw(st.one_of(st.integers(0, 65535), st.integers(65300, 65535)))
    n = draw(st.integers(1, 120 if tier == "quick" else 400))
    arrivals = []
    seq = base
    ts = draw(st.integers(0, 2**32 - 1))
    for _ in range(n):
        step = draw(st.sampled_from(["next", "next", "next", "dup", "back", "jump", "any", "far"]))
        if step == "next":
            seq += 1
        elif step == "back":
            seq -= draw(st.integers(1, 130))
        elif step == "jump":
            seq += draw(st.integers(2, 300))
        elif step == "far":
            seq += draw(st.integers(300, 65535))
        elif step == "any":
            seq = draw(st.integers(0, 65535))
        if draw(st.integers(0, 3)) == 0:
            ts += draw(st.sampled_from([1, 3000, 2**31, 2**32 - 1]))
        arrivals.append([seq & 0xFFFF, ts & 0xFFFFFFFF, draw(st.sampled_from([0, 5, 5, 6, 9]))])
    return {"capacity": cap, "prefetch": draw(st.integers(0, 4)), "video": draw(st.booleans()), "arrivals": arrivals}


def run_a(case: dict) -> Outcome:
    r = Run(case["capacity"], case["prefetch"], case["video"])
    reorder = False
    hi = None
    for u, ts, dlen in case["arrivals"]:
        if hi is not None and ((u - hi) & 0xFFFF) >= 0x8000:
            reorder = True
        else:
            hi = u
        r.add(u, ts, dlen)
        if r.error:
            return Outcome(r.error[0], r.error[1], True, tuple(sorted(r.classes)))
    wrap = any(a[0] > 65000 for a in case["arrivals"]) and any(a[0] < 500 for a in case["arrivals"])
    if wrap:
        r.classes.add("wrap")
    nt = reorder and ("discard" in r.classes or wrap)
    return Outcome(None, None, nt, tuple(sorted(r.classes)))


# ---------------------------------------------------------------------------
# family B: bounded lateness (unwrapped coordinates)


@st.composite
def case_b(draw, tier="quick"):
    cap = draw(st.sampled_from(CAPS))
    base = draw(st.one_of(st.integers(0, 65535), st.integers(65400, 65535)))
    m = draw(st.integers(1, 6))
    nframes = draw(st.integers(2, 40 if tier == "quick" else 120))
    ts0 = draw(st.one_of(st.integers(0, 2**32 - 1), st.integers(2**32 - 20000, 2**32 - 1)))
    stream = []  # (u, ts)
    u = base
    for f in range(nframes):
        if draw(st.integers(0, 12)) == 0:
            u += draw(st.integers(1, 400))  # sender-side gap (lost burst / jump < 2^15)
        for _ in range(draw(st.integers(1, m))):
            stream.append((u, ts0 + 3000 * f))
            u += 1
    # network: each packet gets a delay; sort by (position + delay); drop; duplicate
    arrivals = []
    keyed = []
    for pos, (pu, pts) in enumerate(stream):
        fate = draw(st.sampled_from(["ok", "ok", "ok", "ok", "late", "drop", "dup"]))
        if fate == "drop":
            continue
        delay = draw(st.integers(1, 60)) if fate in ("late", "dup") else 0
        keyed.append((pos + delay, len(keyed), pu, pts))
        if fate == "dup":
            keyed.append((pos + draw(st.integers(0, 80)), len(keyed), pu, pts))
    # contiguous runs replayed later as a block (retransmission of a NACKed range, route flap)
    for _ in range(draw(st.integers(0, 3))):
        if not stream:
            break
        a = draw(st.integers(0, len(stream) - 1))
        ln = draw(st.integers(1, 12))
        at = a + ln + draw(st.integers(0, 70))
        for j, (pu, pts) in enumerate(stream[a:a + ln]):
            keyed.append((at + j * 0.01, len(keyed), pu, pts))
    keyed.sort()
    hi = None
    for _, _, pu, pts in keyed:
        if hi is not None and hi - pu >= 100:
            continue  # would be 100 or more positions late: outside this family
        hi = pu if hi is None else max(hi, pu)
        arrivals.append([pu, pts & 0xFFFFFFFF, draw(st.sampled_from([5, 5, 7]))])
    return {"capacity": cap, "prefetch": draw(st.integers(0, 4)), "video": draw(st.booleans()), "arrivals": arrivals}


def run_b(case: dict) -> Outcome:
    r = Run(case["capacity"], case["prefetch"], case["video"])
    arr = case["arrivals"]
    hi = None
    reorder = dup = False
    seen = set()
    for u, ts, dlen in arr:
        if hi is not None and (hi - u >= 100 or u - hi >= 0x8000):
            return Outcome()  # outside the family's precondition (can only come from ddmin)
        if hi is not None and u < hi:
            reorder = True
        if u in seen:
            dup = True
        seen.add(u)
        hi = u if hi is None else max(hi, u)
        r.add(u, ts, max(5, dlen))
        if r.error:
            return Outcome(r.error[0], r.error[1], True, tuple(sorted(r.classes)))
    used: dict = {}
    last_first = None
    for when, dec, ts, _ in r.frames:
        us = [arr[i][0] for i in dec]
        for x in us:
            if x in used:
                return Outcome(f"sequence number {x & 0xFFFF} was used in two frames", "frame-reuse", True)
        for x in us:
            used[x] = when
        if us:
            if last_first is not None and us[0] <= last_first:
                return Outcome(f"frames not in increasing sequence order ({last_first & 0xFFFF} then {us[0] & 0xFFFF})", "frame-sequence", True)
            last_first = us[0]
    lo, hi2 = min(a[0] for a in arr) if arr else 0, max(a[0] for a in arr) if arr else 0
    if lo >> 16 != hi2 >> 16:
        r.classes.add("wrap")
    if dup:
        r.classes.add("dup")
    nt = reorder and ("discard" in r.classes or "wrap" in r.classes or dup)
    return Outcome(None, None, nt, tuple(sorted(r.classes)))


# ---------------------------------------------------------------------------
# family C: complete, displaced by less than the capacity (interactive)


@st.composite
def case_c(draw, tier="quick"):
    m = draw(st.integers(1, 8))
    prefetch = draw(st.integers(0, 4))
    need = (max(prefetch, 1) + 1) * m
    cap = draw(st.sampled_from([c for c in CAPS if c >= need]))
    base = draw(st.one_of(st.integers(0, 65535), st.integers(65400, 65535)))
    ts0 = draw(st.one_of(st.integers(0, 2**32 - 1), st.integers(2**32 - 30000, 2**32 - 1)))
    nframes = draw(st.integers(2, 30 if tier == "quick" else 80))
    sizes = [draw(st.integers(1, m)) for _ in range(nframes)]
    frames = []  # (first u, size, ts)
    u = base
    for f, s in enumerate(sizes):
        frames.append((u, s, (ts0 + 3000 * f) & 0xFFFFFFFF))
        u += s
    end = u
    ts_of = {}
    for fu, s, ts in frames:
        for k in range(s):
            ts_of[fu + k] = ts
    # interactive arrival order against the real buffer
    jb = JitterBuffer(capacity=cap, prefetch=prefetch, is_video=True)
    released = 0  # number of history frames released so far
    pending = set(range(base + 1, end))
    order = [base]
    p = RtpPacket(sequence_number=base & 0xFFFF, timestamp=ts_of[base])
    p._data = b"x"
    _, fr = jb.add(p)
    if fr is not None:
        released += 1
    mode = draw(st.sampled_from(["shuffle", "mostly-ordered", "reverse-bursts"]))
    while pending:
        head = frames[released][0] if released < len(frames) else end
        cands = sorted(x for x in pending if x - head < cap)
        if not cands:
            break
        if mode == "mostly-ordered" and draw(st.integers(0, 3)) != 0:
            nxt = cands[0]
        elif mode == "reverse-bursts" and draw(st.integers(0, 2)) != 0:
            nxt = cands[min(len(cands) - 1, draw(st.integers(0, 6)))]
        else:
            nxt = draw(st.sampled_from(cands))
        pending.discard(nxt)
        order.append(nxt)
        p = RtpPacket(sequence_number=nxt & 0xFFFF, timestamp=ts_of[nxt])
        p._data = b"x"
        _, fr = jb.add(p)
        if fr is not None:
            released += 1
    return {"capacity": cap, "prefetch": prefetch, "video": draw(st.booleans()), "base": base,
            "frames": [[s, ts] for _, s, ts in frames], "order": [x - base for x in order],
            "dlens": draw(st.sampled_from([[5], [5, 0, 6], [7, 5]])), "stuck": bool(pending)}


def run_c(case: dict) -> Outcome:
    cap, prefetch, base = case["capacity"], case["prefetch"], case["base"]
    frames = []
    u = base
    for s, ts in case["frames"]:
        frames.append((u, s, ts))
        u += s
    end = u
    ts_of, frame_of = {}, {}
    for fi, (fu, s, ts) in enumerate(frames):
        for k in range(s):
            ts_of[fu + k] = ts
            frame_of[fu + k] = fi
    order = [base + o for o in case["order"]]
    if case.get("stuck") or sorted(order) != list(range(base, end)) or order[0] != base:
        return Outcome(classes=("generator-stuck",))
    m = max(s for _, s, _ in frames)
    if cap < (max(prefetch, 1) + 1) * m or min(s for _, s, _ in frames) < 1:
        return Outcome()
    all_ts = [ts for _, _, ts in frames]
    if len(set(all_ts)) != len(all_ts):
        return Outcome()  # frames must have distinct timestamps (only ddmin can break this)
    r = Run(cap, prefetch, case["video"])
    dl = case["dlens"]
    # precondition re-check (only ddmin can break it): displaced by less than the capacity
    released_ts: list = []
    data_of: dict = {}
    reorder = False
    hi = base
    for n, x in enumerate(order):
        head = frames[len(released_ts)][0] if len(released_ts) < len(frames) else end
        if x - head >= cap or x < head:
            return Outcome()  # outside precondition
        if x < hi:
            reorder = True
        hi = max(hi, x)
        dlen = dl[n % len(dl)]
        data_of[x] = token(n, dlen)
        fr = r.add(x, ts_of[x], dlen)
        if r.error:
            return Outcome(r.error[0], r.error[1], True, tuple(sorted(r.classes)))
        if fr is not None:
            released_ts.append((fr.timestamp, fr.data))
    # flush: in-order single-packet frames with fresh timestamps; every add can
    # release one frame, so len(frames)+prefetch+2 adds release every history frame
    fts = frames[-1][2]
    x = end
    for k in range(len(frames) + prefetch + 2):
        fts = (fts + 3000) & 0xFFFFFFFF
        while fts in all_ts:
            fts = (fts + 1) & 0xFFFFFFFF
        fr = r.add(x, fts, 5)
        x += 1
        if r.error:
            return Outcome(r.error[0], r.error[1], True, tuple(sorted(r.classes)))
        if fr is not None:
            released_ts.append((fr.timestamp, fr.data))
    want = [(ts, b"".join(data_of[fu + k] for k in range(s))) for fu, s, ts in frames]
    got = released_ts[: len(want)]
    for i, (w, g) in enumerate(zip(want, got)):
        if w[0] != g[0]:
            return Outcome(f"history frame {i} (ts {w[0]}) was not released in order: got a frame with ts {g[0]}", "frame-missing-or-reordered", True)
        if w[1] != g[1]:
            return Outcome(f"history frame {i} was not released whole", "frame-not-whole", True)
    if len(got) < len(want):
        return Outcome(f"only {len(got)} of {len(want)} complete frames were released after the flush", "frame-never-released", True)
    hist_ts = {ts for _, _, ts in frames}
    if sum(1 for ts, _ in released_ts if ts in hist_ts) != len(want):
        return Outcome("a history frame was released more than once", "frame-twice", True)
    if (base >> 16) != ((end + 2 * cap) >> 16) or base + 0 > 65535 - (end - base):
        r.classes.add("wrap")
    if "discard" in r.classes:
        return Outcome("buffer discarded packets although arrivals were complete and displaced by less than the capacity", "discard-in-complete", True)
    return Outcome(None, None, reorder, tuple(sorted(r.classes | ({"reorder"} if reorder else set()))))


# ---------------------------------------------------------------------------
# family D: complete, every packet displaced by at most d positions (two-sided), with
# 2*d + 2*(prefetch+1)*m + 2 <= capacity.  Unlike family C the precondition does not look at the
# buffer under test at all.  Why it is sufficient for the release rule (at most one frame per add):
# after t arrivals every packet up to index t-d has arrived and none beyond t+d; the backlog of
# complete-but-unreleased packets is at most d + (prefetch+1)*m, the frames the rule still holds
# back at most (prefetch+1)*m more, and arrivals ahead of the contiguous part at most d.


@st.composite
def case_d(draw, tier="quick"):
    cfg = draw(st.sampled_from([(16, 4, 1), (16, 4, 1), (128, 0, 8), (128, 0, 1), None, None]))
    if cfg is None:
        m = draw(st.integers(1, 6))
        prefetch = draw(st.integers(0, 4))
        caps = [c for c in CAPS if c >= 2 + 2 * (prefetch + 1) * m + 2]
        cap = draw(st.sampled_from(caps))
    else:
        cap, prefetch, m = cfg
    dmax = (cap - 2 - 2 * (prefetch + 1) * m) // 2
    d = draw(st.integers(1, max(1, min(dmax, 40))))
    base = draw(st.one_of(st.integers(0, 65535), st.integers(65300, 65535)))
    ts0 = draw(st.one_of(st.integers(0, 2**32 - 1), st.integers(2**32 - 300000, 2**32 - 1)))
    nframes = draw(st.integers(5, 120 if tier == "quick" else 400))
    sizes = [draw(st.integers(1, m)) for _ in range(nframes)] if m > 1 else [1] * nframes
    n = sum(sizes)
    # bounded two-sided displacement: stable sort by index + offset, offset in [0, d]
    style = draw(st.sampled_from(["swaps", "random", "bursty"]))
    if style == "swaps":
        offs = [0] * n
        i = 1
        while i < n - 1:
            if draw(st.integers(0, 2)) == 0:
                offs[i] = 1.5  # packet i goes just behind packet i+1
                i += 2
            else:
                i += 1
    elif style == "random":
        offs = [draw(st.integers(0, d)) + 0.0 for _ in range(n)]
    else:
        offs = [0.0] * n
        i = 1
        while i < n:
            if draw(st.integers(0, 5)) == 0:
                offs[i] = d + 0.5
                i += d + 1
            else:
                i += 1
    offs[0] = -1  # the first arrival defines the origin of the buffer
    order = [i for _, i in sorted((i + o, i) for i, o in enumerate(offs))]
    return {"capacity": cap, "prefetch": prefetch, "video": draw(st.booleans()) if cfg is None else cap == 128,
            "base": base, "ts0": ts0, "sizes": sizes, "order": order, "d": d}


def run_d(case: dict) -> Outcome:
    cap, prefetch, base, sizes, order = case["capacity"], case["prefetch"], case["base"], case["sizes"], case["order"]
    n = sum(sizes)
    m = max(sizes) if sizes else 1
    if not sizes or min(sizes) < 1 or sorted(order) != list(range(n)) or order[0] != 0:
        return Outcome()
    d = max(abs(pos - i) for pos, i in enumerate(order))
    if 2 * d + 2 * (prefetch + 1) * m + 2 > cap:
        return Outcome()  # outside the precondition (only ddmin can produce this)
    frame_of, ts_of = [], []
    for fi, sz in enumerate(sizes):
        for _ in range(sz):
            frame_of.append(fi)
            ts_of.append((case["ts0"] + 3000 * fi) & 0xFFFFFFFF)
    r = Run(cap, prefetch, case["video"])
    released = []
    data_of = {}
    for pos, i in enumerate(order):
        data_of[i] = token(pos, 5)
        fr = r.add(base + i, ts_of[i], 5)
        if r.error:
            return Outcome(r.error[0], r.error[1], True, tuple(sorted(r.classes)))
        if fr is not None:
            released.append((fr.timestamp, fr.data))
    used = {t for t in ts_of}
    fts = ts_of[-1]
    x = base + n
    for _ in range(d + (prefetch + 1) * m + prefetch + 3):
        fts = (fts + 3000) & 0xFFFFFFFF
        while fts in used:
            fts = (fts + 1) & 0xFFFFFFFF
        fr = r.add(x, fts, 5)
        x += 1
        if r.error:
            return Outcome(r.error[0], r.error[1], True, tuple(sorted(r.classes)))
        if fr is not None:
            released.append((fr.timestamp, fr.data))
    classes = set(r.classes) | {f"cfg={cap}/{prefetch}/m{m}", "reorder" if d else "in-order"}
    if (base & 0xFFFF) + n > 65535:
        classes.add("wrap")
    if "discard" in r.classes or "pli" in r.classes:
        return Outcome(f"buffer discarded packets / asked for a key frame although arrivals were complete and displaced by at most {d} "
                       f"positions (capacity {cap}, prefetch {prefetch}, frames of up to {m} packets)", "discard-in-complete", True, tuple(sorted(classes)))
    want, pos = [], 0
    for fi, sz in enumerate(sizes):
        want.append(((case["ts0"] + 3000 * fi) & 0xFFFFFFFF, b"".join(data_of[pos + k] for k in range(sz))))
        pos += sz
    got = released[: len(want)]
    for i, (w, g) in enumerate(zip(want, got)):
        if w[0] != g[0]:
            return Outcome(f"frame {i} (ts {w[0]}) not released in order: got ts {g[0]}", "frame-missing-or-reordered", True, tuple(sorted(classes)))
        if w[1] != g[1]:
            return Outcome(f"frame {i} was not released whole", "frame-not-whole", True, tuple(sorted(classes)))
    if len(got) < len(want):
        return Outcome(f"only {len(got)} of {len(want)} complete frames were released (displacement <= {d}, capacity {cap})",
                       "frame-never-released", True, tuple(sorted(classes)))
    return Outcome(None, None, d > 0, tuple(sorted(classes)))


# ---------------------------------------------------------------------------
# family E: the receiver around the buffer - what add() returns is what the receiver acts on


@st.composite
def case_e(draw, tier="quick"):
    """Arrivals for a real video RTCRtpReceiver (capacity 128, prefetch 0): frames of 1-6 packets sent in order, then each
    packet lost, duplicated, held back, and now and then a forward jump beyond the capacity (which makes the buffer throw
    packets away, sometimes while a complete frame sits right behind them)."""
    base = draw(st.sampled_from([0, 1000, 65400, 65535 - 130]))
    ts = draw(st.sampled_from([0, 90000, 2**32 - 9000]))
    seq = base
    sent = []
    for f in range(draw(st.integers(20, 90 if tier == "quick" else 200))):
        for i in range(draw(st.sampled_from([1, 1, 2, 3, 6]))):
            sent.append([seq & 0xFFFF, ts & 0xFFFFFFFF])
            seq += 1
        ts += 3000
        if draw(st.integers(0, 14)) == 0:
            seq += draw(st.sampled_from([120, 127, 128, 129, 200, 400]))  # the sender's numbering jumps (or a long outage)
    arrivals = []
    held: list = []
    for pkt in sent:
        fate = draw(st.sampled_from(["ok"] * 8 + ["lose", "lose", "dup", "hold"]))
        if fate == "lose":
            continue
        if fate == "hold":
            held.append((len(arrivals) + draw(st.sampled_from([2, 5, 20, 140])), pkt))
            continue
        arrivals.append(pkt)
        if fate == "dup":
            arrivals.append(pkt)
        due = [h for h in held if h[0] <= len(arrivals)]
        for h in due:
            held.remove(h)
            arrivals.append(h[1])
    return {"arrivals": arrivals + [h[1] for h in held]}


def run_e(case: dict) -> Outcome:
    import asyncio
    import queue

    import aiortc.rtcrtpreceiver as RX
    from aiortc.rtcdtlstransport import RTCCertificate, RTCDtlsTransport
    from aiortc.rtcrtpparameters import RTCRtpCodecParameters, RTCRtpDecodingParameters, RTCRtpReceiveParameters
    from aiortc.rtp import RtcpPacket, RtcpPsfbPacket
    from vlib import vloop
    from vlib.patches import RandomShim, patched, virtual_clocks

    global _CERT_E
    try:
        cert = _CERT_E
    except NameError:
        cert = _CERT_E = RTCCertificate.generateCertificate()
    result: dict = {"problem": None, "classes": set()}

    class Ice:
        role = "controlling"

        async def _send(self, data: bytes) -> None:
            pass

    def worker(loop, input_q, output_q):
        while input_q.get() is not None:
            pass

    async def main(loop):
        transport = RTCDtlsTransport(Ice(), [cert])
        rtcp_out: list = []

        async def send_rtp(data: bytes) -> None:
            rtcp_out.append(data)

        transport._send_rtp = send_rtp  # type: ignore[method-assign]
        rcv = RX.RTCRtpReceiver("video", transport)
        rcv._track = RX.RemoteStreamTrack(kind="video")
        rcv._set_rtcp_ssrc(0x5151)
        handed: list = []

        class RecQueue(queue.Queue):
            def put(self, item, *a, **kw):  # type: ignore[override]
                if item is not None:
                    handed.append(bytes(item[1].data))
                return super().put(item, *a, **kw)

        rcv._RTCRtpReceiver__decoder_queue = RecQueue()
        await rcv.receive(RTCRtpReceiveParameters(
            codecs=[RTCRtpCodecParameters(mimeType="video/VP8", clockRate=90000, payloadType=96)],
            muxId="0", encodings=[RTCRtpDecodingParameters(ssrc=77, payloadType=96)]))
        jb = rcv._RTCRtpReceiver__jitter_buffer
        returned: list = []
        orig_add = jb.add

        def add(packet, *a, **kw):
            r = orig_add(packet, *a, **kw)
            returned.append(r)
            return r

        jb.add = add  # type: ignore[method-assign]
        try:
            for n, (seq, ts) in enumerate(case.get("arrivals", [])):
                pkt = RtpPacket(payload_type=96, sequence_number=seq & 0xFFFF, timestamp=ts & 0xFFFFFFFF, ssrc=77,
                                payload=b"\x10" + token(n, 9))
                before_rtcp, before_handed, before_ret = len(rtcp_out), len(handed), len(returned)
                try:
                    await rcv._handle_rtp_packet(pkt, arrival_time_ms=int(loop.wall() * 1000) + n)
                except Exception as exc:
                    result["problem"] = (f"arrival {n}: _handle_rtp_packet raised {exc!r}", "receiver-raised:" + type(exc).__name__)
                    return
                plis = 0
                for raw in rtcp_out[before_rtcp:]:
                    for rp in RtcpPacket.parse(raw):
                        if isinstance(rp, RtcpPsfbPacket) and rp.fmt == 1:
                            plis += 1
                            if rp.media_ssrc != 77:
                                result["problem"] = (f"arrival {n}: PLI names media ssrc {rp.media_ssrc}, the stream is 77", "receiver-pli-ssrc")
                                return
                new = returned[before_ret:]
                if len(new) != 1:
                    result["classes"].add("not-added")  # (dropped before the buffer: nothing to compare)
                    continue
                flag, frame = new[0]
                if flag:
                    result["classes"].add("pli" + ("+frame" if frame is not None else ""))
                if bool(flag) != (plis > 0):
                    result["problem"] = (f"arrival {n} (seq {seq}): the jitter buffer {'asked' if flag else 'did not ask'} for a key frame "
                                         f"({'and returned a frame' if frame is not None else 'no frame'}), the receiver sent {plis} PLI", "receiver-pli")
                    return
                got = handed[before_handed:]
                if (frame is None and got) or (frame is not None and got != [bytes(frame.data)]):
                    result["problem"] = (f"arrival {n}: the buffer returned {'a frame' if frame is not None else 'no frame'}, the decoder "
                                         f"was handed {len(got)} frame(s)", "receiver-frame-forwarding")
                    return
                if frame is not None:
                    result["classes"].add("frame")
        finally:
            await rcv.stop()

    now = lambda: asyncio.get_event_loop().wall()  # noqa: E731
    try:
        with virtual_clocks(now, sctp=False), patched(RX, decoder_worker=worker, random=RandomShim([0.5])):
            vloop.run_sim(main, max_iterations=400000, cpu_seconds=120)
    except vloop.SimAbort as exc:
        return Outcome(f"simulation aborted: {exc!r}", "sim-abort:" + type(exc).__name__, True, tuple(sorted(result["classes"])))
    cl = tuple(sorted(result["classes"]))
    if result["problem"]:
        return Outcome(result["problem"][0], result["problem"][1], True, cl)
    return Outcome(None, None, "pli" in cl or "pli+frame" in cl, cl)


CHECK = Check(
    prop="C10",
    level="exploration",
    rule=(
        "Three generated families of arrival histories over 16-bit sequence numbers with capacity 4..128, prefetch 0..4, "
        "audio/video: A arbitrary (jumps of any size, duplicates, resets), B bounded lateness (< 100 positions behind the "
        "highest seen, forward jumps < 2^15, loss, duplication), C complete and displaced by less than the capacity "
        "(next arrival drawn interactively from packets within `capacity` of the oldest unreleased frame, then an in-order "
        "flush), D complete streams of 5..120 frames in which every packet is displaced by at most d positions with "
        "2d+2(prefetch+1)m+2 <= capacity (adjacent swaps / random offsets / bursts; includes the receiver's own 16/4 audio "
        "and 128/0 video configurations) - a precondition that does not look at the buffer; B additionally replays "
        "contiguous runs late, as retransmissions do. Every arrival carries a unique token so released frames decode into arrivals. Oracles: never raises, "
        "consecutive sequence numbers / one timestamp / previously added, occupancy <= capacity, video PLI whenever held "
        "packets vanish outside the returned frame; B: no sequence number in two frames, increasing frame order; C: every "
        "history frame exactly once, whole, in order. Non-trivial = history has reordering and (A/B) a discard, duplicate or "
        "16-bit wrap; (C) reordering. Distinct by SHA-1 of the concrete arrival list."
        " Family receiver: a real video RTCRtpReceiver fed frames of 1-6 packets with loss, duplicates, held-back packets and jumps around the capacity; it must send a PLI exactly when add() returned the flag and queue exactly the frame add() returned."
    ),
    families=[
        Family("arbitrary", run_a, lambda tier: case_a(tier), quick=6000, thorough=300000),
        Family("bounded-lateness", run_b, lambda tier: case_b(tier), quick=5000, thorough=250000),
        Family("complete", run_c, lambda tier: case_c(tier), quick=4000, thorough=200000),
        Family("displaced", run_d, lambda tier: case_d(tier), quick=3000, thorough=150000),
        Family("receiver", run_e, lambda tier: case_e(tier), quick=1500, thorough=40000, min_shard=20),
    ],
    floor=1000,
    assumptions=["the PLI clause reads the anchored ring JitterBuffer._packets to see which packets left the buffer"],
)
