"""C17 - behaviour does not depend on sequence-number origins, even across
wraparound (DESIGN.md section 2/C17).

  serial16 / serial32   uint16_*/uint32_* against the mathematical definition (exhaustive over all
                        2^32 16-bit pairs in the thorough tier)
  sctp-origin           a C01/C02/C06 session case is run twice - small TSNs / verification tags /
                        stream sequence numbers, and the same placed just below their wrap points -
                        under the same schedule; the two transcripts must be identical
  jitter-origin         a jitter-buffer history with sequence/timestamp base small and near the wrap
  nack-origin           NackGenerator: missing sets and "send a NACK now" decisions
  stats-origin          StreamStatistics: received / lost / fraction / jitter / extended highest
"""

from __future__ import annotations

import asyncio

from hypothesis import strategies as st

import aiortc.rtcrtpreceiver as RX
import aiortc.utils as U
from aiortc.jitterbuffer import JitterBuffer
from aiortc.rtp import RtpPacket
from checks.c10_jitter import case_b
from checks.c18_rr import history, stamp, valid
from checks.sctp_common import base_problems
from vlib.patches import TimeShim, patched
from vlib.runner import Check, Family, Outcome, Stats
from vlib.sctpsim import Session, chunk_types
from vlib.strategies import create_op, send_op, session_case

# --------------------------------------------------------------------------
# (a) serial arithmetic


def ref_gt(a: int, b: int, bits: int) -> bool:
    d = (a - b) % (1 << bits)
    return 0 < d < (1 << (bits - 1))


def check_pair(a: int, b: int, bits: int):
    gt, gte, add = (U.uint16_gt, U.uint16_gte, U.uint16_add) if bits == 16 else (U.uint32_gt, U.uint32_gte, U.uint32_add)
    n = 1 << bits
    want = ref_gt(a, b, bits)
    if gt(a, b) != want:
        return f"uint{bits}_gt({a}, {b}) = {gt(a, b)}, definition says {want}"
    if gte(a, b) != (want or a == b):
        return f"uint{bits}_gte({a}, {b}) = {gte(a, b)}, definition says {want or a == b}"
    d = (a - b) % n
    if d != n // 2 and a != b and gt(a, b) == gt(b, a):
        return f"uint{bits}_gt is not antisymmetric on ({a}, {b})"
    if add(b, d) != a:
        return f"uint{bits}_add({b}, {d}) = {add(b, d)} != {a}"
    if 0 < d < n // 2 and not gt(add(b, d), b):
        return f"uint{bits}_gt(uint{bits}_add({b}, {d}), {b}) is False"
    return None


def run_serial(case: dict) -> Outcome:
    bits = case["bits"]
    n = 1 << bits
    a = case["a"] % n
    for d in case["ds"]:
        b = (a - d) % n
        msg = check_pair(a, b, bits)
        if msg:
            return Outcome(msg, f"serial{bits}", True)
        msg = check_pair(b, a, bits)
        if msg:
            return Outcome(msg, f"serial{bits}", True)
    return Outcome(None, None, True, (f"bits={bits}",))


BOUNDARY_D16 = [0, 1, 2, 3, 0x7FFE, 0x7FFF, 0x8000, 0x8001, 0x8002, 0xFFFE, 0xFFFF, 100, 128, 255, 256]
BOUNDARY_D32 = [0, 1, 2, 0x7FFFFFFE, 0x7FFFFFFF, 0x80000000, 0x80000001, 0xFFFFFFFE, 0xFFFFFFFF, 0xFFFF, 0x10000, 65535 * 65536]


def enum_serial16(tier: str):
    # quick: every a, boundary distances
    for a in range(0, 65536, 1):
        yield {"bits": 16, "a": a, "ds": BOUNDARY_D16}


@st.composite
def serial32_case(draw, tier="quick"):
    a = draw(st.one_of(st.integers(0, 2**32 - 1), st.sampled_from([0, 1, 2**31 - 1, 2**31, 2**31 + 1, 2**32 - 2, 2**32 - 1]),
                       st.integers(2**32 - 400, 2**32 - 1), st.integers(0, 400)))
    ds = BOUNDARY_D32 + draw(st.lists(st.integers(0, 2**32 - 1), max_size=8))
    return {"bits": 32, "a": a, "ds": ds}


def serial16_exhaustive(tier: str, seed: int, shard: int, nshards: int) -> Stats:
    """All 2^32 ordered pairs of 16-bit serial numbers (thorough tier), sharded by a."""
    stats = Stats()
    gt, gte, add = U.uint16_gt, U.uint16_gte, U.uint16_add
    bad = None
    count = 0
    for a in range(shard, 65536, nshards):
        for b in range(65536):
            d = (a - b) & 0xFFFF
            want = 0 < d < 0x8000
            if gt(a, b) != want or gte(a, b) != (want or d == 0) or add(b, d) != a:
                bad = (a, b)
                break
        count += 65536
        if bad:
            break
    stats.evaluations = count
    stats.per_family["serial16-all-pairs"] = {"evaluations": count, "nontrivial": count}
    if shard == 0:
        stats.samples.append({"family": "serial16-all-pairs", "case": {"a": 65535, "b": "0..65535"}})
        stats.exhaustive.append("serial16-all-pairs: all 2^32 ordered pairs (a, b) of 16-bit serial numbers")
    # distinct non-trivial cases are counted per a (a measured number of rows, each row = 65536 pairs)
    for a in range(shard, 65536, nshards):
        stats.nontrivial.add(f"row-{a}")
    if bad:
        case = {"bits": 16, "a": bad[0], "ds": [(bad[0] - bad[1]) & 0xFFFF]}
        stats.violations.append(("serial16", case, check_pair(bad[0], bad[1], 16) or "mismatch", "serial16"))
        stats.violation_counts["serial16/serial16"] = 1
    return stats


# --------------------------------------------------------------------------
# (b) SCTP: origin shift

SMALL = [0x00001001, 0x00000064, 0x00002002, 0x000000C8]  # tag0, tsn0, tag1, tsn1


def _transcript(case: dict, tsn: list, ssn_shift: int):
    s = Session(case, tsn=tsn)
    log: list = []

    def on_message(rec, sender, message) -> None:
        log.append((round(s.loop.time(), 6), rec.idx, sender, type(message).__name__, len(message), hash(message) & 0xFFFFFF))

    s.on_message = on_message
    shifted = {"done": False, "skipped": False}
    closes = {"n": 0}

    def extra_op(n: int, op: dict) -> None:
        if op.get("op") == "idleclose":
            # a close at an instant at which no user data is queued or in flight in either direction: a stream reset that
            # overtakes data is the recorded C13 finding, and what happens to the overtaken data depends on its stream
            # sequence number - not the question here
            if not s.channels or any(t._sent_queue or t._outbound_queue or t._data_channel_queue or
                                     any(st_.reassembly for st_ in t._inbound_streams.values()) for t in s.sctp):
                return
            ch = s.channels[op.get("ch", 0) % len(s.channels)].objs.get(op.get("side", 0) % 2)
            if ch is not None:
                closes["n"] += 1
                ch.close()
            return
        if op.get("op") != "shift_ssn" or shifted["done"]:
            return
        shifted["done"] = True
        # only at an instant at which nothing is in flight or queued on any stream
        for t in s.sctp:
            if t._sent_queue or t._outbound_queue or t._data_channel_queue or any(st_.reassembly for st_ in t._inbound_streams.values()):
                shifted["skipped"] = True
                return
        for side, t in enumerate(s.sctp):
            peer = s.sctp[1 - side]
            for sid in list(t._outbound_stream_seq):
                inbound = peer._get_inbound_stream(sid)
                if inbound.sequence_number != t._outbound_stream_seq[sid]:
                    shifted["skipped"] = True
                    return
            for sid in list(t._outbound_stream_seq):
                v = (t._outbound_stream_seq[sid] + ssn_shift) & 0xFFFF
                t._outbound_stream_seq[sid] = v
                peer._get_inbound_stream(sid).sequence_number = v

    s.extra_op = extra_op

    def after_each(n: int, op: dict) -> None:
        if s.link is not None and s.link.tap is None:
            def tap(side: int, data: bytes) -> None:
                if 192 in chunk_types(data):
                    s.forward_tsn_seen = True
            s.link.tap = tap

    s.after_each_op = after_each
    s.run()
    s.closes_done = closes["n"]
    final = (tuple(len(r.delivered[0]) for r in s.channels), tuple(len(r.delivered[1]) for r in s.channels),
             tuple(len(t._sent_queue) + len(t._outbound_queue) for t in s.sctp), tuple(t.state for t in s.sctp),
             s.idle_status, round(s.virtual_end, 6), tuple(s.t3_expiries),
             tuple((r.idx, side, ch.readyState, ch.id) for r in s.channels for side, ch in sorted(r.objs.items())))
    return s, log, final, shifted


@st.composite
def sctp_origin_case(draw, tier="quick"):
    partial = draw(st.booleans())
    base = draw(session_case(tier, reliable_only=not partial, need_partial=partial, max_sends=25, loss_bias=True,
                             burst_bias=draw(st.booleans())))
    # the stream sequence numbers are moved once the channels are open (the program waits for that)
    ops = base["ops"]
    pos = next((i for i, o in enumerate(ops) if o.get("op") == "await_open"), None)
    if pos is not None:
        ops.insert(pos + 1, {"op": "shift_ssn", "dt": 500})
    # how far below the wrap point each origin is placed; more sends than that make the wrap happen mid-session
    base["below"] = {"tsn0": draw(st.integers(0, 40)), "tsn1": draw(st.integers(0, 40)), "tag0": draw(st.integers(0, 3)),
                     "tag1": draw(st.integers(0, 3)), "ssn": draw(st.integers(0, 12))}
    return base


def run_sctp_origin(case: dict) -> Outcome:
    b = case.get("below", {})
    M = 1 << 32
    high = [(M - 1 - b.get("tag0", 0)) % M, (M - 1 - b.get("tsn0", 0)) % M, (M - 1 - b.get("tag1", 0)) % M, (M - 1 - b.get("tsn1", 0)) % M]
    s0, log0, fin0, sh0 = _transcript(case, SMALL, 0)
    s1, log1, fin1, sh1 = _transcript(case, high, 65535 - b.get("ssn", 0))
    classes = set()
    wrapped = any(t._local_tsn < 1000 for t in s1.sctp)  # the TSN counter went through 2^32 during the run
    if wrapped:
        classes.add("tsn-wrap")
    if sh1["done"] and not sh1["skipped"]:
        classes.add("ssn-shifted")
        if any(v < 1000 for t in s1.sctp for v in t._outbound_stream_seq.values()):
            classes.add("ssn-wrap")
    if any(s1.t3_expiries):
        classes.add("t3")
    if getattr(s1, "closes_done", 0):
        classes.add("close")
        if any(t._reconfig_request_seq < 1000 for t in s1.sctp):
            classes.add("reconfig-seq-wrap")
    if getattr(s1, "forward_tsn_seen", False):
        classes.add("forward-tsn")
    if s1.link and sum(s1.link.dropped) + sum(s1.link.delayed) + sum(s1.link.duplicated):
        classes.add("faults")
    nt = ("tsn-wrap" in classes or "ssn-wrap" in classes or "reconfig-seq-wrap" in classes) and "faults" in classes
    cl = tuple(sorted(classes))
    for s, name in ((s1, "wrapping"), ):
        bp = base_problems(s)
        if bp and not base_problems(s0):
            return Outcome(f"only with {name} origins: {bp[1]}", "origin-" + bp[0], nt, cl)
    if s1.problems and not s0.problems:
        return Outcome(f"only with origins just below the wrap: {s1.problems[0][1]}", "origin-transcript-" + s1.problems[0][0], nt, cl)
    if log0 != log1:
        k = next((i for i, (x, y) in enumerate(zip(log0, log1)) if x != y), min(len(log0), len(log1)))
        a = log0[k] if k < len(log0) else None
        c = log1[k] if k < len(log1) else None
        return Outcome(f"delivery #{k} differs between small origins and origins just below the wrap: {a} vs {c} "
                       f"({len(log0)} vs {len(log1)} deliveries in total)", "origin-delivery-differs", nt, cl)
    if fin0 != fin1:
        return Outcome(f"final state differs: small origins {fin0}, origins below the wrap {fin1}", "origin-final-state-differs", nt, cl)
    return Outcome(None, None, nt, cl)


@st.composite
def reconfig_origin_case(draw, tier="quick"):
    """As sctp_origin_case, with channels being closed and created again along the way: every close is a RE-CONFIG stream
    reset request in each direction, numbered from the initial TSN - placed 0..3 below 2^32, so the request / response
    sequence numbers (and the duplicate test on them) go through the wrap."""
    base = draw(sctp_origin_case(tier))
    nchan = sum(1 for o in base["ops"] if o.get("op") == "create")
    extra = []
    for _ in range(draw(st.integers(2, 10))):
        k = draw(st.sampled_from(["close", "close", "send", "send", "create"]))
        if k == "close":
            extra.append({"op": "idleclose", "ch": draw(st.integers(0, nchan - 1)), "side": draw(st.integers(0, 1)), "dt": draw(st.sampled_from([200, 3000, 15000, 15000]))})
        elif k == "create":
            extra.append(dict(draw(create_op(reliable_only=True)), dt=draw(st.sampled_from([0, 50, 300]))))
            nchan += 1
        else:
            extra.append(draw(send_op(nchan)))
    # interleave with the tail of the program (order within each list is kept)
    ops = base["ops"]
    pos = next((i for i, o in enumerate(ops) if o.get("op") == "shift_ssn"), len(ops) - 1) + 1
    tail = ops[pos:]
    merged = []
    closing: set = set()
    while tail or extra:
        take_extra = extra and (not tail or draw(st.booleans()))
        o = extra.pop(0) if take_extra else tail.pop(0)
        if o.get("op") == "idleclose":
            closing.add(o["ch"])
        elif o.get("op") == "send" and o["ch"] in closing:
            # nothing is sent on a channel once either side may have asked to close it: data racing with the stream reset
            # is the recorded C13 finding again
            continue
        merged.append(o)
    base["ops"] = ops[:pos] + merged
    base["below"]["tsn0"] = draw(st.integers(0, 3))
    base["below"]["tsn1"] = draw(st.integers(0, 3))
    return base


@st.composite
def ssn_abandon_case(draw, tier="quick"):
    """Focused: one ordered partially reliable channel, small messages, a few of them lost for good (abandoned and skipped
    with FORWARD-TSN), with the stream sequence numbers placed so that an abandoned message sits on / next to the wrap."""
    n = draw(st.integers(4, 14))
    lost = sorted(draw(st.lists(st.integers(0, n - 1), min_size=1, max_size=3, unique=True)))
    side = draw(st.integers(0, 1))
    mr = draw(st.sampled_from([0, 0, 1]))
    ops = [{"op": "faults", "on": False},
           {"op": "create", "side": side, "ordered": True, "mr": mr, "mlt": None, "label": "", "protocol": "", "dt": 0},
           {"op": "await_open", "max_ms": 60000},
           {"op": "shift_ssn", "dt": 500},
           {"op": "faults", "on": True, "dt": 100}]
    data_fates = []
    for i in range(n):
        ops.append({"op": "send", "ch": 0, "side": side, "kind": "bytes", "len": draw(st.sampled_from([10, 100, 1200, 1300])), "fill": i,
                    "dt": draw(st.sampled_from([0, 0, 20, 1500]))})
    # every transmission (and retransmission) of a lost message is dropped: simplest is a long run of drops placed by index;
    # because timing decides which datagram is which, the list is drawn, not computed
    data_fates = draw(st.lists(st.sampled_from([["x"], ["x"], ["d", 0], ["d", 0], ["d", 0], ["d", 3]]), min_size=n, max_size=4 * n))
    fates = [data_fates, []] if side == 0 else [[], data_fates]
    target = draw(st.sampled_from(lost))
    # the message with index `target` gets stream sequence number 65535 + delta (mod 2^16); the OPEN/ACK used sequence 0
    delta = draw(st.sampled_from([0, 0, 1, -1]))
    return {"client": draw(st.integers(0, 1)), "start_at": 0, "ops": ops, "fates": fates,
            "below": {"tsn0": draw(st.integers(0, 20)), "tsn1": draw(st.integers(0, 20)), "tag0": 0, "tag1": 0, "ssn": (target + delta) % 65536}}


# --------------------------------------------------------------------------
# (c) RTP: jitter buffer, NACK generator, receiver statistics


def _jb_run(case: dict, seq_base: int, ts_base: int):
    jb = JitterBuffer(capacity=case["capacity"], prefetch=case["prefetch"], is_video=case["video"])
    out = []
    for n, (u, ts, dlen) in enumerate(case["arrivals"]):
        p = RtpPacket(sequence_number=(u + seq_base) & 0xFFFF, timestamp=(ts + ts_base) & 0xFFFFFFFF)
        p._data = b"%06d" % n  # type: ignore[attr-defined]
        pli, frame = jb.add(p)
        out.append((pli, None if frame is None else ((frame.timestamp - ts_base) & 0xFFFFFFFF, frame.data)))
    return out


@st.composite
def jitter_origin_case(draw, tier="quick"):
    c = draw(case_b(tier))
    lo = min((a[0] for a in c["arrivals"]), default=0)
    tlo = min((a[1] for a in c["arrivals"]), default=0)
    c["arrivals"] = [[a[0] - lo, (a[1] - tlo) & 0xFFFFFFFF, a[2]] for a in c["arrivals"]]
    c["seq_below"] = draw(st.integers(1, 200))
    c["ts_below"] = draw(st.sampled_from([1, 3000, 90000, 10**6]))
    return c


def run_jitter_origin(case: dict) -> Outcome:
    arr = case.get("arrivals", [])
    if not arr or any(len(a) != 3 for a in arr):
        return Outcome()
    us = [a[0] for a in arr]
    if max(us) - min(us) >= 0x8000 or min(us) < 0 or any(a[1] < 0 or a[1] >= 2**31 for a in arr):
        return Outcome()  # all live sequence numbers less than half the space apart (the statement's condition)
    a = _jb_run(case, 1000, 10000)
    sb = 65536 - case.get("seq_below", 1)
    tb = 2**32 - case.get("ts_below", 1)
    b = _jb_run(case, sb, tb)
    crosses = max(us) >= case.get("seq_below", 1)
    cl = ("seq-wrap",) if crosses else ()
    if a != b:
        k = next(i for i, (x, y) in enumerate(zip(a, b)) if x != y)
        return Outcome(f"arrival {k}: with sequence base 1000 the buffer returned {_sf(a[k])}, with base {sb} (timestamps from {tb}) {_sf(b[k])}",
                       "jitter-origin-differs", crosses, cl)
    return Outcome(None, None, crosses and any(x < y for x, y in zip(us[1:], us)), cl)


def _sf(x) -> str:
    pli, fr = x
    return f"(pli={pli}, frame={None if fr is None else (fr[0], len(fr[1]))})"


@st.composite
def nack_origin_case(draw, tier="quick"):
    n = draw(st.integers(2, 80))
    u = 0
    seqs = [0]
    for _ in range(n):
        step = draw(st.sampled_from(["next", "next", "next", "gap", "gap", "late", "dup", "big"]))
        if step == "next":
            u += 1
            seqs.append(u)
        elif step == "gap":
            u += draw(st.integers(2, 20))
            seqs.append(u)
        elif step == "big":
            u += draw(st.sampled_from([127, 128, 129, 200, 1000]))
            seqs.append(u)
        elif step == "late":
            seqs.append(max(0, u - draw(st.integers(1, 150))))
        else:
            seqs.append(draw(st.sampled_from(seqs[-5:])))
    return {"seqs": seqs, "below": draw(st.integers(1, 300))}


def run_nack_origin(case: dict) -> Outcome:
    seqs = case.get("seqs", [])
    if not seqs or min(seqs) < 0 or max(seqs) - min(seqs) >= 0x8000:
        return Outcome()

    def run(base: int):
        g = RX.NackGenerator()
        out = []
        for u in seqs:
            r = g.add(RtpPacket(sequence_number=(u + base) & 0xFFFF))
            out.append((r, tuple(sorted((m - base) & 0xFFFF for m in g.missing))))
        return out

    a = run(1000)
    base = 65536 - case.get("below", 1)
    b = run(base)
    crosses = max(seqs) >= case.get("below", 1)
    if a != b:
        k = next(i for i, (x, y) in enumerate(zip(a, b)) if x != y)
        return Outcome(f"packet {k} (offset {seqs[k]}): base 1000 -> (nack={a[k][0]}, missing offsets {list(a[k][1])[:12]}), base {base} -> "
                       f"(nack={b[k][0]}, missing offsets {list(b[k][1])[:12]})", "nack-origin-differs", crosses, ("seq-wrap",) if crosses else ())
    return Outcome(None, None, crosses and any(x[1] for x in a), ("seq-wrap",) if crosses else ())


@st.composite
def stats_origin_case(draw, tier="quick"):
    c = draw(history(tier))
    c["seq_below"] = draw(st.integers(1, 300))
    c["ts_below"] = draw(st.sampled_from([1, 1000, 10**5, 10**6]))
    return c


def run_stats_origin(case: dict) -> Outcome:
    if not valid(case):
        return Outcome()
    us = [ev[1] for ev in case["events"] if ev[0] == "p"]
    lo = min(us) if us else 0

    def run(seq_base: int, ts_base: int):
        now = [1_700_000_000.0]
        stats = RX.StreamStatistics(case["clock"])
        out = []
        with patched(RX, time=TimeShim(lambda: now[0])):
            first = None
            for ev in case["events"]:
                if ev[0] == "p":
                    now[0] += ev[2] / 1000.0
                    seq = (seq_base + ev[1] - lo) & 0xFFFF
                    ts = (ts_base + stamp(case, ev[1]) - stamp(case, lo)) & 0xFFFFFFFF
                    if first is None:
                        first = seq
                    stats.add(RtpPacket(sequence_number=seq, timestamp=ts))
                elif first is not None:
                    now[0] += ev[1] / 1000.0
                    out.append((stats.packets_received, stats.packets_lost, stats.fraction_lost, stats.jitter,
                                stats.cycles + stats.max_seq - stats.base_seq))
        return out

    a = run(1000, 50000)
    sb, tb = 65536 - case.get("seq_below", 1), 2**32 - case.get("ts_below", 1)
    b = run(sb, tb)
    crosses = bool(us) and (max(us) - lo) >= case.get("seq_below", 1)
    cl = ("seq-wrap",) if crosses else ()
    if a != b:
        k = next((i for i, (x, y) in enumerate(zip(a, b)) if x != y), 0)
        return Outcome(f"report {k}: (received, lost, fraction, jitter, extended highest - first) = {a[k] if k < len(a) else None} with sequence "
                       f"base 1000 but {b[k] if k < len(b) else None} with base {sb} / timestamp base {tb}", "stats-origin-differs", crosses, cl)
    return Outcome(None, None, crosses, cl)


CHECK = Check(
    prop="C17",
    level="exploration",
    rule=(
        "serial: uint16_*/uint32_* against 0 < (a-b) mod N < N/2, antisymmetry and consistency with modular addition - every "
        "16-bit a with boundary distances (quick), all 2^32 ordered 16-bit pairs (thorough), boundary-biased 32-bit pairs. "
        "Metamorphic origin shift: the same generated case is executed with small origins and with origins 0-300 below the "
        "wrap point and must behave identically - SCTP sessions (C01/C02/C06 cases incl. partially reliable channels: initial "
        "TSNs, verification tags and hence reconfiguration sequence numbers at 2^32-1-k, stream sequence numbers of every open "
        "stream moved to 65535-k on both endpoints once the channels are open; compared: every delivery with its virtual time, "
        "channel, direction, type and content hash, final queue/state/timer counts), jitter buffer (C10 bounded-lateness "
        "histories; per-add PLI flag and released frame), NACK generator (missing set and decision after every packet), "
        "receiver statistics (C18 histories; received/lost/fraction/jitter/extended highest at every report). Restricted to "
        "histories whose live sequence numbers are less than half the space apart. Non-trivial = the shifted run really "
        "crosses the wrap (with faults for SCTP, with reordering for the jitter buffer, with a non-empty missing set for NACK)."
        " Family reconfig-origin: channels closed (at idle instants) and created again with the RE-CONFIG request/response sequence numbers placed 0-3 below 2^32."
    ),
    families=[
        Family("serial16", run_serial, enumerate=enum_serial16, exhaustive_note="every 16-bit a x 15 boundary distances, both argument orders"),
        Family("serial32", run_serial, serial32_case, quick=3000, thorough=100000, min_shard=500),
        Family("serial16-all-pairs", run_serial, custom=serial16_exhaustive, custom_shards=lambda tier: 16, thorough_only=True),
        Family("sctp-origin", run_sctp_origin, sctp_origin_case, quick=1500, thorough=50000, min_shard=20),
        Family("ssn-abandon", run_sctp_origin, ssn_abandon_case, quick=1500, thorough=50000, min_shard=20),
        Family("reconfig-origin", run_sctp_origin, reconfig_origin_case, quick=1500, thorough=50000, min_shard=20),
        Family("jitter-origin", run_jitter_origin, jitter_origin_case, quick=3000, thorough=100000, min_shard=100),
        Family("nack-origin", run_nack_origin, nack_origin_case, quick=3000, thorough=100000, min_shard=100),
        Family("stats-origin", run_stats_origin, stats_origin_case, quick=3000, thorough=100000, min_shard=100),
    ],
    floor=500,
    assumptions=["SCTP origins are set by replacing aiortc.rtcsctptransport.random32; stream sequence numbers by writing the anchored "
                 "_outbound_stream_seq / InboundStream.sequence_number of both endpoints at a quiescent instant"],
)
