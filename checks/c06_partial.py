"""C06 - partially reliable channels drop only whole messages and never disturb
other channels."""

from __future__ import annotations

import asyncio

import aiortc.rtcsctptransport as S
from checks.sctp_common import base_problems, complete_delivery, drain_verdict, session_classes
from vlib.runner import Check, Family, Outcome
from vlib.sctpsim import Session, chunk_types
from vlib.strategies import abandon_case, bundling, session_case, yielding


def run_session(case: dict) -> Outcome:
    s = Session(case)
    fwd = {"n": 0}
    probes: list = []

    def tap(side: int, data: bytes) -> None:
        # count FORWARD-TSN chunks put on the wire (chunk type 192 right after the common header)
        if 192 in chunk_types(data):
            fwd["n"] += 1

    async def after_drain(sess: Session) -> None:
        # one probe on every channel in both directions once the network has recovered
        for rec in sess.channels:
            for side, ch in list(rec.objs.items()):
                if ch.readyState == "open":
                    value = f"probe.{rec.idx}.{side}".encode()
                    rec.sent[side].append(value)
                    probes.append((rec, side, value))
                    ch.send(value)
        await asyncio.sleep(0)

    s.after_drain = after_drain
    orig_main = s._main

    async def main(loop, horizon):  # install the wire tap as soon as the link exists
        async def hook():
            while s.link is None:
                await asyncio.sleep(0)
            s.link.tap = tap
        asyncio.ensure_future(hook())
        await orig_main(loop, horizon)

    s._main = main  # type: ignore[method-assign]
    s.run()
    classes = session_classes(s)
    abandoned = fwd["n"] > 0
    if abandoned:
        classes.add("forward-tsn")
    kinds = set()
    for r in s.channels:
        p = r.params
        if p.get("mr") is not None:
            kinds.add("rexmit-limited")
        elif p.get("mlt") is not None:
            kinds.add("lifetime-limited")
        else:
            kinds.add("reliable")
    classes |= kinds
    if abandoned and "reliable" in kinds:
        classes.add("abandon-with-reliable-channel")
    nt = abandoned
    bp = base_problems(s)
    if bp:
        return Outcome(bp[1], bp[0], nt, tuple(sorted(classes)))
    if s.problems:
        kind, msg = s.problems[0]
        return Outcome(msg, kind, nt, tuple(sorted(classes)))
    v = drain_verdict(s)  # reliable channels: complete delivery; association alive; queues empty
    if v and v[0] == "not-established":
        return Outcome(None, None, False, tuple(sorted(classes | {"not-established"})))
    if v and v[0] == "inconclusive":
        return Outcome(None, None, nt, tuple(sorted(classes | {"inconclusive"})), inconclusive=True)
    if v:
        return Outcome(v[1], v[0], nt, tuple(sorted(classes)))
    for rec, side, value in probes:
        if value not in rec.delivered[side]:
            p = rec.params
            what = "reliable" if p.get("mr") is None and p.get("mlt") is None else "partially reliable"
            return Outcome(f"probe sent after recovery on {what} channel {rec.idx} ({'ordered' if p['ordered'] else 'unordered'}) "
                           f"{side}->{1 - side} was never delivered", "probe-lost-" + what.split()[0], nt, tuple(sorted(classes)))
    return Outcome(None, None, nt, tuple(sorted(classes)))


CHECK = Check(
    prop="C06",
    level="exploration",
    rule=(
        "Session cases with 1-4 channels drawn from {reliable, maxRetransmits 0/1/3, maxPacketLifeTime 1/50/500/3000 ms} x "
        "{ordered, unordered}, at least one partially reliable, messages up to several times cwnd so that abandonment happens "
        "while later fragments are unsent, loss bursts; after the fault-free suffix one probe message is sent on every open "
        "channel in both directions. Oracle: on partially reliable channels every delivery equals exactly one sent message, no "
        "duplicates, ordered channels deliver a subsequence; reliable channels: full C01 transcript + complete delivery; every "
        "probe is delivered; association stays connected; nothing escapes. Non-trivial = a FORWARD-TSN chunk was put on the wire."
        " Family forward-tsn: 2-4 mostly ordered partially reliable channels, small messages spread over several RTOs while one direction loses 1/3-2/3 of its datagrams (lost / late FORWARD-TSN and SACK, abandonment on a second stream before the first FORWARD-TSN is acknowledged). Families yielding-send / bundling as in C01."
    ),
    families=[
        Family("sessions", run_session,
               lambda tier: session_case(tier, reliable_only=False, need_partial=True, max_sends=30 if tier == "quick" else 60,
                                         loss_bias=True, burst_bias=True, warmup=True),
               quick=5000, thorough=100000, min_shard=20),
        Family("forward-tsn", run_session, abandon_case, quick=3000, thorough=60000, min_shard=20),
        Family("bundling", run_session, lambda tier: bundling(abandon_case(tier)), quick=1500, thorough=40000, min_shard=20),
        Family("yielding-send", run_session,
               lambda tier: yielding(session_case(tier, reliable_only=False, need_partial=True, max_sends=30 if tier == "quick" else 60,
                                                  loss_bias=True, burst_bias=True, warmup=True)),
               quick=1500, thorough=40000, min_shard=20),
    ],
    floor=100,
    assumptions=["as C01/C02"],
)
