"""C03 - offer/answer yields a consistent, connectable session for every
configuration (DESIGN.md section 2/C03).  Real RTCPeerConnection pairs, real
aioice over loopback, real DTLS, virtual time."""

from __future__ import annotations

import asyncio

from hypothesis import strategies as st

from aiortc import RTCRtpSender
from aiortc import sdp as SDP
from aiortc.codecs import is_rtx
from vlib import vloop
from vlib.pcsim import EventLog, PacketTrack, make_pc, run_pc_sim, wait_for
from vlib.runner import Check, Family, Outcome

KINDS = ["audio", "video"]
CAPS = {k: RTCRtpSender.getCapabilities(k).codecs for k in KINDS}
REAL = {k: [i for i, c in enumerate(CAPS[k]) if not is_rtx(c)] for k in KINDS}
RTX = {k: [i for i, c in enumerate(CAPS[k]) if is_rtx(c)] for k in KINDS}
DIRS = ["sendrecv", "sendonly", "recvonly", "inactive"]
REV = {"sendonly": "recvonly", "recvonly": "sendonly", "sendrecv": "sendrecv", "inactive": "inactive"}


def and_dir(a: str, b: str) -> str:
    return SDP.DIRECTIONS[SDP.DIRECTIONS.index(a) & SDP.DIRECTIONS.index(b)]


@st.composite
def item(draw, common):
    if draw(st.integers(0, 3)) == 0:
        rel = draw(st.sampled_from(["r", "r", "mr", "mlt"]))
        return {"t": "dc", "label": draw(st.sampled_from(["chat", "", "données"])), "ordered": draw(st.booleans()),
                "mr": draw(st.sampled_from([0, 3])) if rel == "mr" else None, "mlt": draw(st.sampled_from([100, 3000])) if rel == "mlt" else None}
    kind = draw(st.sampled_from(KINDS))
    it = {"t": "tr", "kind": kind, "via": draw(st.sampled_from(["transceiver", "transceiver", "track"])), "dir": draw(st.sampled_from(DIRS)),
          "track": draw(st.booleans()), "prefs": None}
    if it["via"] == "track":
        it["dir"] = "sendrecv"
    if draw(st.integers(0, 2)) == 0:
        # a non-empty preference list that keeps the codec both sides have in common for this kind
        others = [i for i in REAL[kind] if i != common[kind]]
        chosen = draw(st.lists(st.sampled_from(others), unique=True, max_size=len(others))) if others else []
        prefs = chosen + [common[kind]]
        prefs = draw(st.permutations(prefs))
        if RTX[kind] and draw(st.booleans()):
            prefs = list(prefs) + [RTX[kind][0]]
        it["prefs"] = list(prefs)
    return it


@st.composite
def config_case(draw, tier="quick", connect=True):
    common = {k: draw(st.sampled_from(REAL[k])) for k in KINDS}
    off_items = draw(st.lists(item(common), min_size=0, max_size=3))
    ans_items = draw(st.lists(item(common), min_size=0, max_size=2))
    always = draw(st.integers(0, 4)) == 0
    if not off_items and not always:
        off_items = [draw(item(common))]
    case = {"offerer": {"bundle": draw(st.sampled_from(list(["balanced", "max-compat", "max-bundle"]))), "always_dc": always, "items": off_items},
            "answerer": {"bundle": draw(st.sampled_from(["balanced", "max-compat", "max-bundle"])), "always_dc": False, "items": ans_items},
            "followup": None, "connect": connect, "reorder": draw(st.sampled_from([None, None, None, "rtx-last", "reverse", "rotate", "fb-no-pli", "fb-no-nack", "fb-none", "fb-first"]))}
    if draw(st.booleans()):
        case["followup"] = {"offer_by": draw(st.integers(0, 1)), "add_to": draw(st.integers(0, 1)), "item": draw(item(common))}
    # a quarter of the cases over a path whose datagram send suspends (TURN relay)
    case["yield_send"] = draw(st.sampled_from([False, False, False, True]))
    return case


def reorder_offer(text: str, mode: str) -> str:
    """The same offer as another implementation might write it: codecs of every audio/video section listed in a different
    order (RTX entries after all real codecs / reversed / rotated).  Payload types, parameters and feedback are untouched."""
    d = SDP.SessionDescription.parse(text)
    for m in d.media:
        if m.kind not in KINDS or (len(m.rtp.codecs) < 2 and not mode.startswith("fb-")):
            continue
        codecs = list(m.rtp.codecs)
        if mode.startswith("fb-"):
            # ... or offering less RTCP feedback than aiortc does
            for c in codecs:
                keep = {"fb-no-pli": lambda f: (f.type, f.parameter) != ("nack", "pli"),
                        "fb-no-nack": lambda f: (f.type, f.parameter) != ("nack", None),
                        "fb-none": lambda f: False,
                        "fb-first": lambda f: f is c.rtcpFeedback[0]}[mode]
                c.rtcpFeedback = [f for f in c.rtcpFeedback if keep(f)]
            continue
        if mode == "rtx-last":
            codecs = [c for c in codecs if not is_rtx(c)] + [c for c in codecs if is_rtx(c)]
        elif mode == "reverse":
            codecs = codecs[::-1]
        else:
            codecs = codecs[1:] + codecs[:1]
        m.rtp.codecs = codecs
        m.fmt = [c.payloadType for c in codecs]
    return str(d)


def apply_item(pc, it: dict, log: EventLog, made: dict) -> None:
    if it["t"] == "dc":
        ch = pc.createDataChannel(it["label"], ordered=it["ordered"], maxRetransmits=it["mr"], maxPacketLifeTime=it["mlt"])
        log.watch_channel(ch)
        made["channels"].append(ch)
        return
    if it["via"] == "track":
        track = PacketTrack(it["kind"])
        made["tracks"].append(track)
        sender = pc.addTrack(track)
        tr = next(t for t in pc.getTransceivers() if t.sender is sender)
    else:
        arg = it["kind"]
        if it.get("track"):
            arg = PacketTrack(it["kind"])
            made["tracks"].append(arg)
        tr = pc.addTransceiver(arg, direction=it["dir"])
    if it.get("prefs"):
        tr.setCodecPreferences([CAPS[it["kind"]][i] for i in it["prefs"]])


def sdp_consistency(offer_text: str, answer_text: str):
    o, a = SDP.SessionDescription.parse(offer_text), SDP.SessionDescription.parse(answer_text)
    om = [(m.kind, m.rtp.muxId) for m in o.media]
    am = [(m.kind, m.rtp.muxId) for m in a.media]
    if om != am:
        return ("answer-sections", f"answer m-sections {am} do not mirror the offer's {om}")
    ob = next((g.items for g in o.group if g.semantic == "BUNDLE"), None)
    ab = next((g.items for g in a.group if g.semantic == "BUNDLE"), None)
    if ab is not None and (ob is None or list(ab) != [x for x in ob if x in ab] or set(ab) - set(ob)):
        return ("answer-bundle", f"answer BUNDLE group {ab} vs offer {ob}")
    if ab is not None and ob is not None and set(ab) != set(ob):
        return ("answer-bundle", f"answer BUNDLE group {ab} does not list the same mids as the offer's {ob}")
    for mo, ma in zip(o.media, a.media):
        if ma.dtls is None or ma.dtls.role not in ("client", "server"):
            return ("answer-setup", f"answer section {ma.rtp.muxId} has no definite DTLS role: {ma.dtls.role if ma.dtls else None}")
        if mo.kind not in KINDS:
            continue
        offered = {c.payloadType: c for c in mo.rtp.codecs}
        answered = {c.payloadType: c for c in ma.rtp.codecs}
        if not any(not is_rtx(c) for c in ma.rtp.codecs):
            return ("answer-no-codec", f"answer section {ma.rtp.muxId} selects no real codec")
        for c in ma.rtp.codecs:
            oc = offered.get(c.payloadType)
            if oc is None or oc.mimeType.lower() != c.mimeType.lower() or oc.clockRate != c.clockRate:
                return ("answer-codec", f"answer codec {c.payloadType} {c.mimeType}/{c.clockRate} was not offered with that payload type "
                                        f"(offer has {oc})")
            if is_rtx(c):
                apt = c.parameters.get("apt")
                if apt not in answered or is_rtx(answered[apt]):
                    return ("answer-rtx", f"answer keeps RTX {c.payloadType} without its base codec (apt={apt})")
            for fb in c.rtcpFeedback:
                if fb not in oc.rtcpFeedback:
                    return ("answer-feedback", f"answer codec {c.payloadType} has rtcp-fb {fb} that was not offered")
        oext = {(h.id, h.uri) for h in mo.rtp.headerExtensions}
        for h in ma.rtp.headerExtensions:
            if (h.id, h.uri) not in oext:
                return ("answer-extmap", f"answer extmap {h.id} {h.uri} was not offered (offer: {sorted(oext)})")
    return None


class Scenario:
    def __init__(self, case: dict) -> None:
        self.case = case
        self.problem = None
        self.classes: set = set()
        self.descriptions: list = []  # (type, text, pc index)

    def fail(self, kind: str, msg: str) -> None:
        if self.problem is None:
            self.problem = (kind, msg)

    def field_check(self, pc, desc) -> None:
        """C09 (a): parsing a generated description gives back what the connection put in (its own state)."""
        if self.field_problem is not None:
            return
        try:
            d = SDP.SessionDescription.parse(desc.sdp)
        except Exception as exc:
            self.field_problem = f"generated {desc.type} does not parse: {exc!r}"
            return
        trs = pc.getTransceivers()
        fps = {(f.algorithm, f.value) for t in pc._RTCPeerConnection__dtlsTransports for f in t.getLocalParameters().fingerprints}
        for i, m in enumerate(d.media):
            where = f"{desc.type} m-section {i} ({m.kind})"
            if m.kind in KINDS:
                tr = next((t for t in trs if t._get_mline_index() == i and t.kind == m.kind), None) or \
                    next((t for t in trs if t.mid == m.rtp.muxId), None)
                if tr is None:
                    self.field_problem = f"{where}: no transceiver of the connection corresponds to it"
                    return
                want = [(c.payloadType, c.mimeType, c.clockRate, c.channels if m.kind == "audio" else None,
                         [(f.type, f.parameter) for f in c.rtcpFeedback], dict(c.parameters)) for c in tr._codecs]
                got = [(c.payloadType, c.mimeType, c.clockRate, c.channels, [(f.type, f.parameter) for f in c.rtcpFeedback],
                        dict(c.parameters)) for c in m.rtp.codecs]
                if want != got:
                    self.field_problem = f"{where}: codecs parsed back {got} but the transceiver has {want}"
                    return
                if [(h.id, h.uri) for h in m.rtp.headerExtensions] != [(h.id, h.uri) for h in tr._headerExtensions]:
                    self.field_problem = f"{where}: header extensions differ from the transceiver's"
                    return
                ssrcs = [x.ssrc for x in m.ssrc]
                if not ssrcs or ssrcs[0] != tr.sender._ssrc or (len(ssrcs) > 1 and ssrcs[1] != tr.sender._rtx_ssrc):
                    self.field_problem = f"{where}: SSRCs {ssrcs} vs sender {tr.sender._ssrc}/{tr.sender._rtx_ssrc}"
                    return
                if m.fmt != [c.payloadType for c in tr._codecs] or not m.rtcp_mux or m.direction not in DIRS:
                    self.field_problem = f"{where}: fmt/rtcp-mux/direction not recovered ({m.fmt}, {m.rtcp_mux}, {m.direction})"
                    return
                dtls = tr.receiver.transport
            else:
                if pc.sctp is None or (m.sctp_port or int(m.fmt[0])) != pc.sctp.port or m.sctpCapabilities is None or \
                        m.sctpCapabilities.maxMessageSize != pc.sctp.getCapabilities().maxMessageSize:
                    self.field_problem = f"{where}: SCTP port / max-message-size not recovered"
                    return
                dtls = pc.sctp.transport
            ice = dtls.transport.iceGatherer.getLocalParameters()
            if (m.ice.usernameFragment, m.ice.password) != (ice.usernameFragment, ice.password):
                self.field_problem = f"{where}: ICE credentials not recovered"
                return
            if m.dtls is None or not {(f.algorithm, f.value) for f in m.dtls.fingerprints} <= fps or not m.dtls.fingerprints:
                self.field_problem = f"{where}: DTLS fingerprints not recovered"
                return
            cands = [SDP.candidate_to_sdp(c) for c in dtls.transport.iceGatherer.getLocalCandidates()]
            if [SDP.candidate_to_sdp(c) for c in m.ice_candidates] != cands:
                self.field_problem = f"{where}: candidates parsed back differ from the gatherer's"
                return

    field_problem = None

    async def negotiate(self, pcs, offer_by: int) -> bool:
        a, b = pcs[offer_by], pcs[1 - offer_by]
        try:
            offer = await a.createOffer()
            self.descriptions.append(("offer", offer.sdp, offer_by))
            self.field_check(a, offer)
            await a.setLocalDescription(offer)
            self.field_check(a, a.localDescription)
            remote_offer = a.localDescription
            if self.case.get("reorder"):
                from aiortc import RTCSessionDescription

                remote_offer = RTCSessionDescription(sdp=reorder_offer(remote_offer.sdp, self.case["reorder"]), type="offer")
                self.classes.add("offer-reordered")
            await b.setRemoteDescription(remote_offer)
            answer = await b.createAnswer()
            self.descriptions.append(("answer", answer.sdp, 1 - offer_by))
            self.field_check(b, answer)
            await b.setLocalDescription(answer)
            await a.setRemoteDescription(b.localDescription)
        except Exception as exc:
            self.fail("negotiation-raised:" + type(exc).__name__, f"offer/answer exchange raised {exc!r}")
            return False
        for i, pc in enumerate(pcs):
            if pc.signalingState != "stable":
                self.fail("not-stable", f"pc {i} is in signaling state {pc.signalingState} after the exchange")
                return False
        bad = sdp_consistency(remote_offer.sdp, b.localDescription.sdp)  # the offer as the answerer saw it
        if bad:
            self.fail(bad[0], bad[1])
            return False
        # directions
        for ta in a.getTransceivers():
            if ta.mid is None:
                continue
            tb = next((t for t in b.getTransceivers() if t.mid == ta.mid), None)
            if tb is None:
                self.fail("transceiver-missing", f"mid {ta.mid} has no transceiver on the answering side")
                return False
            want_b = and_dir(tb.direction, REV[ta.direction])
            if tb.currentDirection != want_b or ta.currentDirection != REV[want_b]:
                self.fail("direction", f"mid {ta.mid}: offerer asked {ta.direction}, answerer {tb.direction}: currentDirection "
                                       f"{ta.currentDirection}/{tb.currentDirection}, expected {REV[want_b]}/{want_b}")
                return False
        return True

    async def main(self, loop: vloop.VLoop) -> None:
        case = self.case
        pcs = [make_pc(case["offerer"]["bundle"], case["offerer"].get("always_dc", False)), make_pc(case["answerer"]["bundle"])]
        logs = [EventLog("offerer", pcs[0], loop), EventLog("answerer", pcs[1], loop)]
        made = [{"channels": [], "tracks": []}, {"channels": [], "tracks": []}]
        try:
            for side, key in ((0, "offerer"), (1, "answerer")):
                for it in case[key]["items"]:
                    apply_item(pcs[side], it, logs[side], made[side])
            if not await self.negotiate(pcs, 0):
                return
            leftovers = self.leftovers(pcs)
            if case.get("connect", True):
                # with items the first exchange could not carry, what it did carry must work all the same
                if not await self.check_connected(pcs, logs, made, "first exchange", partial=bool(leftovers[0] or leftovers[1])):
                    return
            fu = case.get("followup")
            if fu is None and (leftovers[0] or leftovers[1]):
                # items the first exchange could not carry: the side owning them offers
                fu = {"offer_by": 1 if leftovers[1] else 0, "add_to": 0, "item": None}
            if fu is not None:
                self.classes.add("followup")
                if fu.get("item"):
                    apply_item(pcs[fu["add_to"] % 2], fu["item"], logs[fu["add_to"] % 2], made[fu["add_to"] % 2])
                if not await self.negotiate(pcs, fu["offer_by"] % 2):
                    return
                left = self.leftovers(pcs)
                if left[0] or left[1]:
                    who = 0 if left[0] else 1
                    if not await self.negotiate(pcs, who):
                        return
                if case.get("connect", True):
                    await self.check_connected(pcs, logs, made, "follow-up exchange")
        finally:
            for pc in pcs:
                try:
                    await asyncio.wait_for(pc.close(), 30)
                except Exception:
                    pass
            for m in made:
                for t in m["tracks"]:
                    t.stop()

    def leftovers(self, pcs) -> list:
        out = []
        for pc in pcs:
            n = sum(1 for t in pc.getTransceivers() if t.mid is None and not t.stopped)
            if pc.sctp is not None and pc.sctp.mid is None:
                n += 1
            out.append(n)
        return out

    async def check_connected(self, pcs, logs, made, where: str, partial: bool = False) -> bool:
        if partial:
            # some transceiver or the SCTP transport of one side is not negotiated yet and keeps its own, idle transport
            # (so connectionState is not "connected"): look at the transports of what has been negotiated
            def negotiated(pc) -> list:
                out = [t.sender.transport for t in pc.getTransceivers()
                       if t.mid is not None and not t.stopped and t.currentDirection in ("sendrecv", "sendonly", "recvonly")]
                if pc.sctp is not None and pc.sctp.mid is not None:
                    out.append(pc.sctp.transport)
                return out

            if not all(pc.sctp is not None and pc.sctp.mid is not None for pc in pcs) and not all(negotiated(pc) for pc in pcs):
                return True  # nothing was negotiated on one of the sides
            self.classes.add("partial-connect")
            await wait_for(lambda: all(t.state in ("connected", "failed", "closed") for pc in pcs for t in negotiated(pc)), timeout=40)
            states = [[t.state for t in negotiated(pc)] for pc in pcs]
            if any(st_ != "connected" for sts in states for st_ in sts):
                self.fail("not-connected", f"after the {where} (other items still to negotiate): DTLS transports of the negotiated "
                                           f"transceivers / SCTP are {states}, connectionState {[pc.connectionState for pc in pcs]}")
                return False
        else:
            ok = await wait_for(lambda: all(pc.connectionState in ("connected", "failed", "closed") for pc in pcs), timeout=40)
            states = [pc.connectionState for pc in pcs]
            if states != ["connected", "connected"]:
                detail = [[(t.state, t.transport.state) for t in pc._RTCPeerConnection__dtlsTransports] for pc in pcs]
                self.fail("not-connected", f"after the {where}: connectionState {states} (dtls/ice states {detail})")
                return False
        # every negotiated data channel opens, is announced once and carries a message each way
        for side in (0, 1):
            for ch in made[side]["channels"]:
                if partial and not all(pc.sctp is not None and pc.sctp.mid is not None for pc in pcs):
                    continue
                peer_log = logs[1 - side]
                if not await wait_for(lambda: ch.readyState == "open" and any(c.id == ch.id for c in peer_log.channels), timeout=40):
                    self.fail("channel-not-open", f"after the {where}: channel {ch.label!r} created by pc {side} is {ch.readyState}, "
                                                  f"announced to the peer: {[c.id for c in peer_log.channels]}")
                    return False
                twins = [c for c in peer_log.channels if c.id == ch.id]
                if len(twins) != 1:
                    self.fail("channel-announced-twice", f"channel id {ch.id} announced {len(twins)} times")
                    return False
                twin = twins[0]
                tag = f"{where}/{side}/{ch.id}"
                n1, n2 = len(peer_log.messages[id(twin)]), len(logs[side].messages[id(ch)])
                ch.send("ping " + tag)
                twin.send(("pong " + tag).encode())
                if not await wait_for(lambda: len(peer_log.messages[id(twin)]) > n1 and len(logs[side].messages[id(ch)]) > n2, timeout=40):
                    self.fail("channel-no-traffic", f"after the {where}: messages on channel {ch.id} were not delivered both ways")
                    return False
                if peer_log.messages[id(twin)][-1] != "ping " + tag or logs[side].messages[id(ch)][-1] != ("pong " + tag).encode():
                    self.fail("channel-wrong-message", f"channel {ch.id} delivered something else")
                    return False
        self.classes.add("connected")
        return True


def run_config(case: dict) -> Outcome:
    sc = Scenario(case)
    try:
        run_pc_sim(sc.main, max_iterations=1_500_000, yield_send=bool(case.get("yield_send")))
    except vloop.SimAbort as exc:
        return Outcome(f"simulation aborted: {exc!r}", "sim-abort:" + type(exc).__name__, True, tuple(sorted(sc.classes)))
    classes = set(sc.classes)
    off, ans = case["offerer"]["items"], case["answerer"]["items"]
    if ans:
        classes.add("answerer-precreated")
    if any(i.get("prefs") for i in off + ans):
        classes.add("codec-preferences")
    if any(i["t"] == "tr" and i["dir"] != "sendrecv" for i in off + ans):
        classes.add("asymmetric-directions")
    if any(i["t"] == "dc" for i in off + ans) or case["offerer"].get("always_dc"):
        classes.add("datachannel")
    classes.add("bundle=" + case["offerer"]["bundle"] + "/" + case["answerer"]["bundle"])
    if case.get("yield_send"):
        classes.add("yielding-send")
    nt = bool(classes & {"answerer-precreated", "codec-preferences", "asymmetric-directions", "followup"})
    cl = tuple(sorted(classes))
    if sc.problem:
        return Outcome(sc.problem[1], sc.problem[0], nt, cl, info={"descriptions": sc.descriptions, "field_problem": sc.field_problem})
    return Outcome(None, None, nt, cl, info={"descriptions": sc.descriptions, "field_problem": sc.field_problem})


# --------------------------------------------------------------------------
# C09 family "pc": every description produced on the way is a fixed point of parse/serialise


def run_pc_sdp(case: dict) -> Outcome:
    case = dict(case, connect=False)
    out = run_config(case)
    if out.violation is not None and not out.kind.startswith("answer-"):
        # negotiation problems are C03's business; C09 only looks at the descriptions that were produced
        return Outcome(None, None, False, ("negotiation-problem",))
    if out.info.get("field_problem"):
        return Outcome(out.info["field_problem"], "pc-sdp-field", True, tuple(out.classes))
    n = 0
    for typ, text, who in out.info.get("descriptions", []):
        n += 1
        try:
            d = SDP.SessionDescription.parse(text)
            again = str(d)
        except Exception as exc:
            return Outcome(f"a generated {typ} does not parse/serialise: {exc!r}", "pc-sdp-raised:" + type(exc).__name__, True)
        if again != text:
            a, b = text.splitlines(), again.splitlines()
            k = next((i for i, (x, y) in enumerate(zip(a, b)) if x != y), min(len(a), len(b)))
            return Outcome(f"generated {typ} is not a fixed point: line {k}: {a[k] if k < len(a) else None!r} became "
                           f"{b[k] if k < len(b) else None!r}", "pc-sdp-not-fixed-point", True)
    return Outcome(None, None, n >= 2 and out.nontrivial, tuple(out.classes))


def sdp_family() -> Family:
    return Family("pc", run_pc_sdp, lambda tier: config_case(tier, connect=False), quick=1000, thorough=20000, min_shard=10)


CHECK = Check(
    prop="C03",
    level="exploration",
    rule=(
        "Configuration pairs: offerer with 0-3 items (audio/video transceivers via addTransceiver(kind|track, direction) or "
        "addTrack, any of the four directions, optional codec preferences = permutation of a sub-list of the capabilities "
        "that keeps one real codec both sides share per kind, optionally RTX; data channels of any reliability), bundle policy "
        "balanced/max-compat/max-bundle, alwaysNegotiateDataChannels; answerer independently with 0-2 pre-created items and "
        "its own bundle policy; optional follow-up: add an item on either side and renegotiate with either side offering "
        "(forced when the first exchange left items un-negotiated). Driven through real RTCPeerConnection objects (real "
        "aioice on loopback, real DTLS/SRTP/SCTP) on a virtual-time loop. Oracle: the exchange raises nothing and ends stable "
        "on both sides; currentDirection = and(own direction, reverse(peer's)) and mirror images; parsed answer mirrors the "
        "offer's sections and BUNDLE group, selects only offered codecs with the offerer's payload types, RTX only next to "
        "its base, only offered rtcp-fb and extmap ids, a=setup active/passive; then both sides reach connectionState "
        "connected and every data channel opens, is announced exactly once and carries a message each way. Non-trivial = "
        "answerer pre-created something, codec preferences, asymmetric directions or a follow-up negotiation."
    ),
    families=[Family("configurations", run_config, config_case, quick=2000, thorough=30000, min_shard=10)],
    floor=100,
    assumptions=["aioice, OpenSSL, libsrtp and the kernel's loopback UDP are trusted"],
)
