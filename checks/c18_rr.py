"""C18 - RTCP receiver reports carry correct loss/jitter figures that always
fit the wire.  Reference implementation of RFC 3550 A.1/A.3/A.8 over unwrapped
sequence numbers and timestamps."""

from __future__ import annotations

import asyncio

from hypothesis import strategies as st

import aiortc.rtcrtpreceiver as RX
from aiortc import rtp as R
from aiortc.rtcrtpparameters import (RTCRtpCodecParameters, RTCRtpDecodingParameters,
                                     RTCRtpReceiveParameters)
from vlib import vloop
from vlib.patches import RandomShim, TimeShim, patched
from vlib.runner import Check, Family, Outcome

EPOCH = 1_700_000_000.0


class Model:
    def __init__(self, clockrate: int) -> None:
        self.clock = clockrate
        self.received = 0
        self.base_u = None
        self.max_u = None
        self.jq4 = 0
        self.last_arr = None
        self.last_T = None
        self.expected_prior = 0
        self.received_prior = 0

    def add(self, u: int, T: int, now: float) -> None:
        self.received += 1
        if self.base_u is None:
            self.base_u = u
        if self.max_u is None or u > self.max_u:
            arr = int(now * self.clock)
            self.max_u = u
            if self.last_T is not None and T != self.last_T:
                d = abs((arr - self.last_arr) - (T - self.last_T))
                self.jq4 += d - ((self.jq4 + 8) >> 4)
            self.last_arr, self.last_T = arr, T

    @property
    def expected(self) -> int:
        return self.max_u - self.base_u + 1

    def lost(self) -> int:
        return max(-(1 << 23), min(self.expected - self.received, (1 << 23) - 1))

    def ext_highest(self) -> int:
        cycles = (self.max_u >> 16) - (self.base_u >> 16)
        return (cycles << 16) | (self.max_u & 0xFFFF)

    def fraction(self) -> int:
        e = self.expected - self.expected_prior
        r = self.received - self.received_prior
        self.expected_prior, self.received_prior = self.expected, self.received
        lost = e - r
        return 0 if e == 0 or lost <= 0 else (lost << 8) // e

    def jitter(self) -> int:
        return self.jq4 >> 4


# ---------------------------------------------------------------------------------


@st.composite
def history(draw, tier="quick", jumps=False, long=False):
    clock = draw(st.sampled_from([8000, 48000, 90000]))
    base = draw(st.one_of(st.integers(0, 65535), st.integers(65400, 65535), st.integers(0, 100)))
    T0 = draw(st.one_of(st.integers(0, 2**32 - 1), st.integers(2**32 - 400000, 2**32 - 1)))
    ppf = draw(st.sampled_from([1, 1, 2, 3]))
    tick = draw(st.sampled_from([160, 960, 3000, 3003, 1]))
    n = draw(st.integers(1, 60 if tier == "quick" else 200))
    events = []
    pos = 0
    seen = [0]
    events.append(["p", 0, draw(st.sampled_from([0, 1, 20]))])
    if long:
        # a run of far jumps, kept as ONE event so that it shrinks as one value: `count` packets, each `step` sequence
        # numbers after the previous one (every step is a legal forward jump, < 2^15) - more than 128 sequence cycles
        # of loss, which is where the cumulative figure leaves the 24-bit signed field of the report
        count = draw(st.sampled_from([200, 257, 258, 300, 520, 800]))
        step = draw(st.sampled_from([30000, 32000, 32767]))
        events.append(["F", pos, count, step])
        pos += count * step
        seen[:] = [pos]  # (duplicates are drawn from `seen`: nothing from before the run, it is more than 2^15 behind)
    for _ in range(n):
        k = draw(st.sampled_from(["next", "next", "next", "next", "loss", "far", "reorder", "dup", "report", "report"]))
        gap = draw(st.sampled_from([0, 1, 5, 20, 20, 33, 400, 2000]))
        if jumps and draw(st.integers(0, 9)) == 0:
            gap = draw(st.sampled_from([10**6, 10**8, 10**9, 9 * 86400 * 1000, 10**11, 2**45]))
        if k == "report":
            events.append(["r", gap])
            continue
        if k == "next":
            pos += 1
            u = pos
        elif k == "loss":
            pos += draw(st.integers(2, 50))
            u = pos
        elif k == "far":
            pos += draw(st.sampled_from([1000, 20000, 32000, 32767]))
            u = pos
            seen[:] = []  # (a duplicate of something from before the jump could be more than 2^15 behind: outside the statement)
        elif k == "reorder":
            u = pos - draw(st.integers(1, 60))
            if u < -30:
                u = pos
        else:
            u = draw(st.sampled_from(seen[-8:]))
        seen.append(u)
        events.append(["p", u, gap])
    events.append(["r", 10])
    return {"clock": clock, "base": base, "T0": T0, "ppf": ppf, "tick": tick, "events": events}


NTPS = [0, 1, 0xFFFF, 0x10000, 0x83AA7E8000000000, 0xE000000012345678, 2**64 - 1, 2**48 - 1]
WALL_STEPS = [-0.001, -30.0, -86400.0, -4e9, 0.5, 3600.0, 70000.0, 4e9]  # seconds by which the wall clock is stepped (NTP corrections)


@st.composite
def history_rr(draw, tier="quick"):
    """For the real receiver: the history plus sender reports arriving for the stream (any NTP timestamp) and steps of the
    wall clock in either direction - LSR and DLSR are fields of the report too."""
    case = draw(history(tier))
    extra = []
    for _ in range(draw(st.integers(0, 4))):
        if draw(st.booleans()):
            extra.append(["s", draw(st.integers(0, len(NTPS) - 1)), draw(st.sampled_from([0, 20, 400]))])
        else:
            extra.append(["j", draw(st.integers(0, len(WALL_STEPS) - 1)), 0])
    ev = case["events"]
    for e in extra:
        ev.insert(draw(st.integers(1, len(ev))), e)
    return case


def stamp(case: dict, u: int) -> int:
    return case["T0"] + ((u + 1000) // case["ppf"]) * case["tick"]


def expand(case: dict) -> dict:
    """["F", start, count, step] -> count packets at start + step * i, 1 ms apart."""
    if not any(ev and ev[0] == "F" for ev in case.get("events", [])):
        return case
    out = []
    for ev in case["events"]:
        if ev and ev[0] == "F":
            if len(ev) != 4 or not all(isinstance(x, int) for x in ev[1:]) or not (0 < ev[3] < 2**15) or not (0 <= ev[2] <= 2000):
                return dict(case, events=[["?"]])
            out.extend(["p", ev[1] + ev[3] * i, 1] for i in range(1, ev[2] + 1))
        else:
            out.append(ev)
    return dict(case, events=out)


def valid(case: dict) -> bool:
    """Preconditions of the statement (only ddmin can break them): known clock
    rates, every packet within half the sequence space of the highest seen."""
    if case["clock"] not in (8000, 48000, 90000) or case["ppf"] < 1 or case["tick"] < 0:
        return False
    hi = None
    for ev in case["events"]:
        if len(ev) < 2 or ev[0] not in ("p", "r", "s", "j") or not isinstance(ev[-1], int) or ev[-1] < 0:
            return False
        if ev[0] in ("s", "j") and (len(ev) != 3 or not isinstance(ev[1], int)):
            return False
        if ev[0] == "p":
            if len(ev) != 3 or not isinstance(ev[1], int):
                return False
            if hi is not None and abs(ev[1] - hi) >= 2**15:
                return False
            hi = ev[1] if hi is None else max(hi, ev[1])
    return True


def run_stats(case: dict) -> Outcome:
    case0 = case
    case = expand(case)
    if not valid(case):
        return Outcome()
    now = [EPOCH]
    stats = RX.StreamStatistics(case["clock"])
    model = Model(case["clock"])
    classes = set()
    exact_jitter = True
    have_packet = False
    us = []
    last_pkt_time = None
    with patched(RX, time=TimeShim(lambda: now[0])):
        for n, ev in enumerate(case["events"]):
            if ev[0] == "p":
                _, u, gap = ev
                now[0] += gap / 1000.0
                # exact jitter oracle only while the arrival delta between packets
                # (report gaps included) stays below 2^30 ticks
                if last_pkt_time is not None and (now[0] - last_pkt_time) * case["clock"] >= 2**30:
                    exact_jitter = False
                    classes.add("clock-jump")
                last_pkt_time = now[0]
                U = case["base"] + u
                if U < 0:
                    continue
                T = stamp(case, u)
                us.append(U)
                pkt = R.RtpPacket(sequence_number=U & 0xFFFF, timestamp=T & 0xFFFFFFFF)
                try:
                    stats.add(pkt)
                except Exception as exc:
                    return Outcome(f"StreamStatistics.add raised {exc!r} at event {n}", "add-raised", True, tuple(sorted(classes)))
                model.add(U, T, now[0])
                have_packet = True
                if stats.packets_received != model.received:
                    return Outcome(f"packets_received {stats.packets_received} != {model.received}", "received", True)
            else:
                now[0] += ev[1] / 1000.0
                if not have_packet:
                    continue
                try:
                    got = {"lost": stats.packets_lost, "fraction": stats.fraction_lost,
                           "ext": stats.cycles + stats.max_seq, "jitter": stats.jitter}
                except Exception as exc:
                    return Outcome(f"report properties raised {exc!r}", "report-raised", True, tuple(sorted(classes)))
                want = {"lost": model.lost(), "fraction": model.fraction(), "ext": model.ext_highest(), "jitter": model.jitter()}
                for key in ("lost", "fraction", "ext"):
                    if got[key] != want[key]:
                        return Outcome(f"event {n}: {key} = {got[key]}, RFC 3550 reference = {want[key]}", "report-" + key, True,
                                       tuple(sorted(classes)))
                if exact_jitter and got["jitter"] != want["jitter"]:
                    return Outcome(f"event {n}: jitter = {got['jitter']}, RFC 3550 A.8 (mod 2^32) = {want['jitter']}", "report-jitter",
                                   True, tuple(sorted(classes)))
                # the values must fit the wire
                try:
                    info = R.RtcpReceiverInfo(ssrc=1, fraction_lost=got["fraction"], packets_lost=got["lost"],
                                              highest_sequence=got["ext"], jitter=got["jitter"], lsr=0, dlsr=0)
                    back = R.RtcpPacket.parse(bytes(R.RtcpRrPacket(ssrc=2, reports=[info])))[0].reports[0]
                except Exception as exc:
                    return Outcome(f"event {n}: receiver report cannot be serialised: {exc!r} (jitter={got['jitter']})",
                                   "report-unserialisable", True, tuple(sorted(classes)))
                if back != info:
                    return Outcome("receiver report does not parse back", "report-roundtrip", True)
    if us:
        if (min(us) >> 16) != (max(us) >> 16):
            classes.add("seq-cycle")
        Ts = [stamp(case, u - case["base"]) for u in us]
        if (min(Ts) >> 32) != (max(Ts) >> 32):
            classes.add("ts-wrap")
        if any(b < a for a, b in zip(us, us[1:])):
            classes.add("reorder")
        if model.expected > model.received:
            classes.add("loss")
        if model.expected - model.received > (1 << 23) - 1:
            classes.add("loss-saturated")
    nt = "reorder" in classes and "loss" in classes and bool(classes & {"seq-cycle", "ts-wrap"})
    if any(ev[0] == "F" for ev in case0["events"]):
        nt = "loss-saturated" in classes  # (family long-loss: the case counts when the true loss exceeds 2^23 - 1)
    return Outcome(None, None, nt, tuple(sorted(classes)))


# ---------------------------------------------------------------------------------
# layer 2: a real RTCRtpReceiver; RR packets captured from its transport


class FakeTransport:
    state = "connected"
    _stats_id = "transport_fake"

    def __init__(self) -> None:
        self.sent: list = []
        self.on_rtcp = None

    def _register_rtp_receiver(self, receiver, parameters) -> None:
        pass

    def _unregister_rtp_receiver(self, receiver) -> None:
        pass

    async def _send_rtp(self, data: bytes) -> None:
        if self.on_rtcp:
            self.on_rtcp(data)

    def _get_stats(self):
        from aiortc.stats import RTCStatsReport

        return RTCStatsReport()


def tap_worker(loop, input_q, output_q) -> None:
    while True:
        if input_q.get() is None:
            break


def run_receiver(case: dict) -> Outcome:
    if not valid(case):
        return Outcome()
    kind = "audio" if case["clock"] != 90000 else "video"
    codec = (RTCRtpCodecParameters(mimeType="video/VP8", clockRate=90000, payloadType=97) if kind == "video" else
             RTCRtpCodecParameters(mimeType="audio/opus" if case["clock"] == 48000 else "audio/PCMU",
                                   clockRate=case["clock"], payloadType=96))
    ssrc = 0x12345678
    result: dict = {"err": None, "reports": 0, "classes": set()}

    async def main(loop: vloop.VLoop):
        transport = FakeTransport()
        model = Model(case["clock"])
        state = {"have": False, "exact": True}

        def on_rtcp(data: bytes) -> None:
            for p in R.RtcpPacket.parse(data):
                if isinstance(p, R.RtcpRrPacket) and result["err"] is None:
                    for rep in p.reports:
                        if rep.ssrc != ssrc or not state["have"]:
                            continue
                        result["reports"] += 1
                        want = {"packets_lost": model.lost(), "fraction_lost": model.fraction(),
                                "highest_sequence": model.ext_highest(), "jitter": model.jitter()}
                        for key, w in want.items():
                            if key == "jitter" and not state["exact"]:
                                continue
                            if getattr(rep, key) != w:
                                result["err"] = (f"RR on the wire: {key} = {getattr(rep, key)}, RFC 3550 reference = {w}", "rr-" + key)
                                return

        inner_on_rtcp = on_rtcp
        last_rr = {"t": None}

        def on_rtcp(data: bytes) -> None:  # noqa: F811
            if any(isinstance(p, R.RtcpRrPacket) and p.reports for p in R.RtcpPacket.parse(data)):
                last_rr["t"] = loop.time()
            inner_on_rtcp(data)

        transport.on_rtcp = on_rtcp
        rx = RX.RTCRtpReceiver(kind, transport)
        rx._track = RX.RemoteStreamTrack(kind=kind)
        rx._set_rtcp_ssrc(0x0BADCAFE)
        params = RTCRtpReceiveParameters(codecs=[codec], encodings=[RTCRtpDecodingParameters(ssrc=ssrc, payloadType=codec.payloadType)])
        await rx.receive(params)
        try:
            for ev in case["events"]:
                gap = ev[-1]
                if gap > 60000:
                    gap = 60000  # layer 2 keeps the exact-jitter precondition
                if gap:
                    await asyncio.sleep(gap / 1000.0)
                if ev[0] == "p":
                    U = case["base"] + ev[1]
                    if U < 0:
                        continue
                    T = stamp(case, ev[1])
                    pkt = R.RtpPacket(payload_type=codec.payloadType, sequence_number=U & 0xFFFF, timestamp=T & 0xFFFFFFFF,
                                      ssrc=ssrc, payload=b"\x10\x00abc" if kind == "video" else b"abc")
                    await rx._handle_rtp_packet(pkt, arrival_time_ms=int(loop.time() * 1000))
                    model.add(U, T, loop.wall() + wall_offset[0])
                    state["have"] = True
                elif ev[0] == "s":
                    result["classes"].add("sender-report")
                    await rx._handle_rtcp_packet(R.RtcpSrPacket(ssrc=ssrc, sender_info=R.RtcpSenderInfo(
                        ntp_timestamp=NTPS[ev[1] % len(NTPS)], rtp_timestamp=0, packet_count=0, octet_count=0)))
                elif ev[0] == "j":
                    result["classes"].add("wall-clock-step")
                    wall_offset[0] += WALL_STEPS[ev[1] % len(WALL_STEPS)]
                    state["exact"] = False  # (the arrival clock jumped: jitter is outside the exact-comparison precondition)
                    await asyncio.sleep(1.6)
                else:
                    await asyncio.sleep(1.6)  # lets at least one RR interval elapse
                if result["err"]:
                    break
            await asyncio.sleep(2.0)
            # "building and sending a receiver report never fails": reports keep coming (one per 0.5-1.5 s)
            if state["have"] and result["err"] is None and (last_rr["t"] is None or loop.time() - last_rr["t"] > 1.9):
                result["err"] = (f"no receiver report was sent during the last {loop.time() - (last_rr['t'] or 0):.1f} s "
                                 f"(the report interval is 0.5-1.5 s)", "rr-stopped")
        finally:
            try:
                await asyncio.wait_for(rx.stop(), 20)
            except asyncio.TimeoutError:
                if result["err"] is None:
                    result["err"] = ("receiver.stop() did not return within 20 s (its RTCP task is gone)", "rr-stop-hangs")
        if loop.logged_errors and result["err"] is None:
            e = loop.logged_errors[0]
            result["err"] = (f"error in receiver task: {e['message']} {e['exception']}", "rr-task-error")

    wall_offset = [0.0]
    shim = TimeShim(lambda: asyncio.get_event_loop().wall() + wall_offset[0])
    try:
        with patched(RX, time=shim, random=RandomShim([0.1, 0.9, 0.5, 0.0, 0.99]), decoder_worker=tap_worker):
            vloop.run_sim(main, max_iterations=400000, cpu_seconds=60)
    except vloop.SimAbort as exc:
        return Outcome(f"simulation aborted: {exc!r}", "sim-abort", True)
    except Exception as exc:
        return Outcome(f"receiver raised {exc!r}", "rr-raised:" + type(exc).__name__, True)
    if result["err"]:
        return Outcome(result["err"][0], result["err"][1], True)
    us = [case["base"] + e[1] for e in case["events"] if e[0] == "p" and case["base"] + e[1] >= 0]
    cyc = bool(us) and (min(us) >> 16) != (max(us) >> 16)
    return Outcome(None, None, result["reports"] > 0 and cyc, tuple(sorted(result["classes"] | ({"seq-cycle"} if cyc else set()))))


CHECK = Check(
    prop="C18",
    level="exploration",
    rule=(
        "Per-SSRC arrival histories in unwrapped coordinates: start sequence anywhere (biased to the wrap), steps +1 / loss "
        "2-50 / far jumps up to 32767 (several sequence cycles) / reordering up to 60 back / duplicates, 64-bit true "
        "timestamps with origin near 2^32, clock rates 8000/48000/90000, arrival gaps 0-2000 ms (family clock-jump: up to "
        "2^45 ms), report instants interleaved. Oracle: RFC 3550 A.1/A.3/A.8 reference over the unwrapped values: "
        "packets_received after each packet; loss, fraction, extended highest sequence, jitter (mod 2^32, exact when deltas "
        "< 2^30 ticks) at each report; every report serialises and parses back. Layer 2 feeds a real RTCRtpReceiver under "
        "virtual time and compares the RR packets it sends. Non-trivial = history has loss and reordering and crosses a "
        "sequence cycle or the timestamp wrap (family long-loss: a run of 200-800 far jumps of 30000-32767, i.e. up to 400 sequence cycles of loss, kept as one shrinkable event; non-trivial = the true cumulative loss exceeds 2^23-1, where the report must carry the saturated value; layer 2: at least one RR compared and a sequence cycle)."
        " The real-receiver family also feeds sender reports (any NTP timestamp) and steps the wall clock by -4e9..4e9 s: reports must keep coming every 0.5-1.5 s and stop() must return."
    ),
    families=[
        Family("statistics", run_stats, lambda tier: history(tier), quick=5000, thorough=250000),
        Family("clock-jump", run_stats, lambda tier: history(tier, jumps=True), quick=1500, thorough=50000),
        Family("long-loss", run_stats, lambda tier: history(tier, long=True), quick=300, thorough=6000),
        Family("receiver-rr", run_receiver, lambda tier: history_rr(tier), quick=600, thorough=15000, min_shard=10),
    ],
    floor=300,
    assumptions=["the arrival clock is the patched time.time() of aiortc.rtcrtpreceiver; arrival ticks = int(time * clockrate)",
                 "jitter oracle is exact only while arrival/timestamp deltas stay below 2^30 ticks"],
)
