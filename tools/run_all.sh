#!/bin/sh
# tools/run_all.sh <tier> [ids...]  - runs the checks one after the other, prints one summary line each
TIER="${1:-quick}"; shift
IDS="${*:-C01 C02 C03 C04 C05 C06 C07 C08 C09 C10 C11 C12 C13 C14 C15 C16 C17 C18 C19}"
cd "$(dirname "$0")/.."
for c in $IDS; do
  START=$(date +%s)
  ./check $c --tier $TIER > /tmp/run_all_$c.log 2>&1
  RC=$?
  echo "$c rc=$RC $(($(date +%s)-START))s $(grep -v KNOWN-FINDING /tmp/run_all_$c.log | tail -1 | cut -c1-300)"
  [ $RC -ne 0 ] && grep "violation\[\|VIOLATION\|HARNESS" /tmp/run_all_$c.log | head -12 | cut -c1-400
done
exit 0
