#!/bin/sh
# tools/recheck_seeds.sh [ids...]  - demo + registered check(s) again for every filed seed at the current heads
# (3 at a time; logs in /tmp/seedlogs/recheck-*.json).  The checks to run are those recorded in the seed's meta.json.
cd "$(dirname "$0")/.."
mkdir -p /tmp/seedlogs
LIST="${*:-$(ls seeded)}"
for d in $LIST; do
  P=${d%%-*}; K=${d##*-}
  CHECKS=$(python3 -c "import json;print(','.join(json.load(open('seeded/$d/meta.json')).get('checks_run',{}).keys()) or '$P')")
  echo "$P $K $CHECKS"
done | xargs -P 3 -L 1 sh -c '/verif/tools/verify_seed.py $0 /verif/seeded/$0-$1 0 --recheck --dest $1 --checks $2 > /tmp/seedlogs/recheck-$0-$1.json 2>&1'
