#!/bin/sh
# usage: seedq.sh "C12 1" "C12 2" ...   (runs 3 at a time)
printf '%s\n' "$@" | xargs -P 3 -I{} sh -c 'set -- {}; /verif/tools/verify_seed.py $1 /tmp/seed/$1/out $2 > /tmp/seedlogs/$1-$2.json 2>&1'
