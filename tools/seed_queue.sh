#!/bin/sh
# usage: seed_queue.sh <round-dir> "C12 1 3" "C12 2 4 C12,C17" ...   ("<PROP> <k> <dest-k> [checks]", 3 at a time; logs in /tmp/seedlogs)
# e.g.   seed_queue.sh /tmp/seed2 "C01 1 3"   verifies /tmp/seed2/C01/out/patch1.diff and files it as seeded/C01-3
R=$1; shift
mkdir -p /tmp/seedlogs
printf '%s\n' "$@" | xargs -P 3 -I{} sh -c 'set -- {}; /verif/tools/verify_seed.py $1 '"$R"'/$1/out $2 --dest $3 ${4:+--checks $4} > /tmp/seedlogs/$1-$3.json 2>&1'
