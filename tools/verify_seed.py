#!/venv/bin/python
"""tools/verify_seed.py <PROP> <src-dir> <k> [--no-suite] [--recheck] [--checks C01,C02] [--tier quick] [--dest <k'>]

Confirms a seeded change (made by an independent sub-agent) in a scratch
worktree of /repo and files it under /verif/seeded/<PROP>-<k>/:

  1. demo on the pristine worktree           -> must exit 0
  2. apply patch, demo                        -> must exit != 0
  3. full existing test-suite with the patch  -> must pass (unless --no-suite)
  4. ./check <PROP> (and any --checks) against the patched worktree -> records rc / kinds

The worktree is removed afterwards.  Nothing is ever applied to /repo itself.
"""

import json
import os
import re
import shutil
import subprocess
import sys
import tempfile
import time
from pathlib import Path

ROOT = Path(__file__).resolve().parent.parent


def sh(cmd, cwd=None, env=None, timeout=3600):
    t0 = time.time()
    p = subprocess.run(cmd, shell=True, cwd=cwd, env=env, stdout=subprocess.PIPE, stderr=subprocess.STDOUT,
                       text=True, timeout=timeout)
    return p.returncode, p.stdout, time.time() - t0


def main():
    argv = list(sys.argv[1:])
    for opt in ("--checks", "--tier", "--dest"):
        if opt in argv:
            del argv[argv.index(opt) + 1]
    args = [a for a in argv if not a.startswith("--")]
    prop, src, k = args[0], Path(args[1]), args[2]
    no_suite = "--no-suite" in sys.argv
    recheck = "--recheck" in sys.argv  # seed already filed: demo + checks again at the current heads, suite result kept
    if recheck:
        no_suite = True
    tier = "quick"
    checks = [prop]
    dest_k = None
    for i, a in enumerate(sys.argv):
        if a == "--checks":
            checks = sys.argv[i + 1].split(",")
        if a == "--tier":
            tier = sys.argv[i + 1]
        if a == "--dest":
            dest_k = sys.argv[i + 1]
    patch = src / f"patch{k}.diff"
    demo = src / f"demo{k}.py"
    meta_in = src / f"meta{k}.json"
    if (src / "patch.diff").exists():  # a filed seed (seeded/<ID>-<k>/)
        patch, demo, meta_in = src / "patch.diff", src / "demo.py", src / "meta.json"
    tmp = Path(tempfile.mkdtemp(prefix="seedv."))
    wt = tmp / "wt"
    subprocess.check_call(["git", "-C", "/repo", "worktree", "add", "-q", "--detach", str(wt), "HEAD"])
    result = {"property": prop, "k": k, "repo_head": subprocess.check_output(["git", "-C", "/repo", "rev-parse", "--short", "HEAD"], text=True).strip()}
    try:
        env = dict(os.environ, PYTHONPATH=f"{wt}/src", PYTHONDONTWRITEBYTECODE="1")
        # the demo may mention the agent's own worktree path; point it at ours
        demo_text = demo.read_text()
        demo_local = tmp / "demo.py"
        demo_local.write_text(re.sub(r"/tmp/seed[23]?/[A-Z0-9]+/wt", str(wt), demo_text))
        rc0, out0, _ = sh(f"/venv/bin/python {demo_local}", cwd=wt, env=env, timeout=600)
        result["demo_pristine_rc"] = rc0
        rc, out, _ = sh(f"git apply {patch}", cwd=wt)
        if rc != 0:
            result["apply_error"] = out[-2000:]
            print(json.dumps(result, indent=1))
            return 2
        rc1, out1, _ = sh(f"/venv/bin/python {demo_local}", cwd=wt, env=env, timeout=600)
        result["demo_patched_rc"] = rc1
        result["demo_patched_tail"] = out1[-600:]
        if not no_suite:
            rcs, outs, dt = sh("/venv/bin/python -m pytest -q -p no:cacheprovider --timeout=900 -ra 2>&1 | tail -40", cwd=wt, env=env)
            summary = [l for l in outs.splitlines() if re.search(r"\d+ (passed|failed)", l)]
            failed = re.findall(r"^(?:FAILED|ERROR) (\S+)", outs, flags=re.M)
            result["suite_tail"] = summary[-1:]
            ok = bool(summary) and not failed and "passed" in summary[-1] and "failed" not in summary[-1]
            if failed and len(failed) <= 5:
                # timing-sensitive tests can fail under machine load: re-run them alone
                rc2, out2, _ = sh("/venv/bin/python -m pytest -q -p no:cacheprovider --timeout=900 " + " ".join(failed) + " 2>&1 | tail -5", cwd=wt, env=env)
                s2 = [l for l in out2.splitlines() if re.search(r"\d+ (passed|failed)", l)]
                result["suite_rerun_of_failures"] = {"tests": failed, "result": s2[-1:]}
                ok = bool(s2) and "failed" not in s2[-1] and "passed" in s2[-1]
            result["suite_ok"] = ok
            result["suite_wall_s"] = round(dt)
        result["checks"] = {}
        # run the checks from a snapshot of /verif's HEAD, so that edits made in /verif meanwhile do not disturb them
        snap = tmp / "verif"
        snap.mkdir()
        subprocess.check_call(f"git -C {ROOT} archive HEAD | tar -x -C {snap}", shell=True)
        os.symlink(ROOT / ".deps", snap / ".deps")
        result["verif_head"] = subprocess.check_output(["git", "-C", str(ROOT), "rev-parse", "--short", "HEAD"], text=True).strip()
        for c in checks:
            cenv = dict(os.environ, VERIF_REPO_SRC=f"{wt}/src", VERIF_EVIDENCE_DIR=str(tmp / "ev"), VERIF_OUT_DIR=str(tmp / "out"))
            rcc, outc, dt = sh(f"{snap}/check {c} --tier {tier}", cwd=snap, env=cenv, timeout=7200)
            lines = [l for l in outc.splitlines() if l.startswith(("violation[", "VIOLATION", "OK ", "HARNESS", "regression replay"))]
            result["checks"][c] = {"rc": rcc, "wall_s": round(dt), "tier": tier, "lines": [l[:400] for l in lines[:8]]}
        detected = any(v["rc"] == 1 for v in result["checks"].values())
        result["detected"] = detected
        # file it
        dest = ROOT / "seeded" / f"{prop}-{dest_k or k}"
        valid = rc0 == 0 and rc1 != 0 and (no_suite or result.get("suite_ok"))
        result["valid_seed"] = bool(valid)
        if recheck and (dest / "meta.json").exists():
            meta = json.loads((dest / "meta.json").read_text())
            meta["rechecked"] = {"repo_head": result["repo_head"], "verif_head": result.get("verif_head"),
                                 "demo_on_pristine_worktree": f"exit {rc0}", "demo_with_patch": f"exit {rc1}"}
            if rc0 == 0 and rc1 != 0:
                meta["checks_run"] = result["checks"]
                meta["detected_by"] = [c for c, v in result["checks"].items() if v["rc"] == 1]
            (dest / "meta.json").write_text(json.dumps(meta, indent=1) + "\n")
            print(json.dumps(result, indent=1))
            return 0
        if valid:
            dest.mkdir(parents=True, exist_ok=True)
            shutil.copy(patch, dest / "patch.diff")
            (dest / "demo.py").write_text(demo_text)
            meta = json.loads(meta_in.read_text()) if meta_in.exists() else {}
            meta.update({
                "breaks_property": prop,
                "confirmed": {
                    "repo_head": result["repo_head"],
                    "demo_on_pristine_worktree": f"exit {rc0}",
                    "demo_with_patch": f"exit {rc1}",
                    "existing_suite_with_patch": (result.get("suite_tail") or ["not run"])[0] if not no_suite else "not run",
                    "how": "tools/verify_seed.py: scratch worktree of /repo HEAD, PYTHONPATH=<wt>/src; demo before/after `git apply`; full pytest suite with the patch; then ./check against the patched worktree (VERIF_REPO_SRC)",
                },
                "checks_run": result["checks"],
                "detected_by": [c for c, v in result["checks"].items() if v["rc"] == 1],
            })
            (dest / "meta.json").write_text(json.dumps(meta, indent=1) + "\n")
        print(json.dumps(result, indent=1))
        return 0
    finally:
        subprocess.call(["git", "-C", "/repo", "worktree", "remove", "--force", str(wt)])
        shutil.rmtree(tmp, ignore_errors=True)


if __name__ == "__main__":
    sys.exit(main())
