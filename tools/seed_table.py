#!/usr/bin/env python3
"""Rewrites DESIGN.md section 7 from seeded/*/meta.json."""
import json
import re
from pathlib import Path

ROOT = Path(__file__).resolve().parent.parent
rows = []
for d in sorted((ROOT / "seeded").iterdir()):
    m = json.loads((d / "meta.json").read_text())
    checks = m.get("checks_run", {})
    det = m.get("detected_by", [])
    how = []
    for c, v in checks.items():
        line = next((l for l in v.get("lines", []) if l.startswith("violation[") or l.startswith("regression replay")), "")
        kind = re.search(r"violation\[([^\]]+)\]", line)
        how.append(f"{c}: {'**caught** (' + kind.group(1) + ')' if v['rc'] == 1 and kind else ('**caught**' if v['rc'] == 1 else 'not caught')} [{v.get('tier', 'quick')}, {v.get('wall_s')} s]")
    if m.get("note"):
        how.append("(" + m["note"] + ")")
    rows.append((d.name, " ".join((m.get("summary") or "").split()).replace("|", "/")[:170], " ".join((m.get("needs") or "").split()).replace("|", "/")[:200], "; ".join(how), bool(det)))
out = ["Each row is one change made by a sub-agent that saw only the property record (section 5), confirmed by",
       "`tools/verify_seed.py` (demonstration passes on the unchanged tree, fails with the patch, the 495 repository tests pass",
       "with the patch), and the result of running the registered **quick** check against the patched tree.", "",
       "| change | what it does | what it needs to manifest | result |", "|---|---|---|---|"]
for name, summ, needs, how, ok in rows:
    out.append(f"| {name} | {summ} | {needs} | {how} |")
caught = sum(1 for r in rows if r[4])
out += ["", f"{caught} of {len(rows)} seeded changes are reported by the quick tier of the check of their property (or, where noted, of the",
        "property that owns the mechanism). The results are those of the last re-run of every change against the final heads of",
        "`/repo` and `/verif` (`tools/recheck_seeds.sh`)."]
notes = (ROOT / "tools" / "seed_notes.md")
if notes.exists():
    out += ["", notes.read_text().rstrip()]
text = (ROOT / "DESIGN.md").read_text()
head = text[: text.index("## 7. Which checks catch which seeded changes")]
(ROOT / "DESIGN.md").write_text(head + "## 7. Which checks catch which seeded changes\n\n" + "\n".join(out) + "\n")
print(f"{caught}/{len(rows)}")
