import json, sys, glob, jsonschema
m=json.load(open('/verif/MANIFEST.json')); jsonschema.validate(m, json.load(open('/root/.vp/MANIFEST.schema.json')))
s=json.load(open('/root/.vp/EVIDENCE.schema.json'))
for f in sorted(glob.glob('/verif/evidence/*.json')):
    jsonschema.validate(json.load(open(f)), s)
print("manifest + evidence valid", len(glob.glob('/verif/evidence/*.json')))
