#!/bin/sh
# tools/mutant.sh <patch.diff> <prop> [extra check args]  - run a check against a scratch
# worktree of /repo with the patch applied (never touches /repo's working tree).
set -e
PATCH="$(realpath "$1")"; PROP="$2"; shift 2
WT="$(mktemp -d /tmp/mut.XXXXXX)"
git -C /repo worktree add -q --detach "$WT/wt" HEAD
trap 'git -C /repo worktree remove --force "$WT/wt" >/dev/null 2>&1; rm -rf "$WT"' EXIT
git -C "$WT/wt" apply "$PATCH"
set +e
VERIF_REPO_SRC="$WT/wt/src" VERIF_EVIDENCE_DIR="$WT/ev" VERIF_OUT_DIR="$WT/out" /verif/check "$PROP" "$@"
RC=$?
echo "mutant $(basename "$PATCH") on $PROP -> rc=$RC"
exit $RC
