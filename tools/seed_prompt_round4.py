import json,sys,subprocess,os
pid=sys.argv[1]
for l in open('/verif/properties.jsonl'):
    p=json.loads(l)
    if p['id']==pid: break
wt=f"/tmp/seed4/{pid}/wt"
out=f"/tmp/seed4/{pid}/out"
os.makedirs(out,exist_ok=True)
if not os.path.exists(wt):
    subprocess.check_call(["git","-C","/repo","worktree","add","-q","--detach",wt,"HEAD"])
prompt=f"""You are helping evaluate a verification framework for the open-source Python library aiortc (pure-Python asyncio WebRTC stack). Your job is to play the role of a developer who introduces a subtle regression.

You have your own scratch git worktree of the aiortc repository at {wt} (library code under {wt}/src/aiortc, tests under {wt}/tests). Work ONLY inside {wt} and {out}. Do not read or touch /repo, /verif or any other directory outside those two (in particular do not look at /verif - your work must be independent of it). No network is available.

The Python interpreter to use is /venv/bin/python. To make it import the worktree's code rather than the installed one ALWAYS run with PYTHONPATH={wt}/src, e.g.
  cd {wt} && PYTHONPATH={wt}/src /venv/bin/python -m pytest -q -p no:cacheprovider --timeout=900 tests/test_rtcsctptransport.py
The full existing test suite (495 tests, about 3 minutes) is: cd {wt} && PYTHONPATH={wt}/src /venv/bin/python -m pytest -q -p no:cacheprovider --timeout=900

Here is a semantic property of aiortc that is supposed to hold (JSON record):

{json.dumps(p, indent=1)}

TASK: produce ONE change (patch 1, relative to the pristine worktree HEAD) to the library code under src/aiortc that each
  (a) BREAK this property (make the library genuinely violate the statement for some input / schedule / history),
  (b) still import/compile, and the COMPLETE existing test suite still passes with the change applied (you must actually run the full suite with each patch and confirm 0 failures),
  (c) look like a plausible, realistic developer mistake or 'optimisation'/refactoring gone wrong (not sabotage like 'raise Exception' or an 'if x == 12345' trap),
  (d) need something SPECIFIC to manifest - a particular interleaving, a fault at a particular point, a multi-step sequence of operations, an unusual-but-legal input (boundary value, wraparound, particular length), or two cooperating code sites that each look fine alone. Ordinary simple use must NOT expose it at once. Prefer changes to the mechanisms the property's anchors name. Pick one of the LESS obvious mechanisms / code locations that the property record lists under "anchors"; avoid the most obvious one-line edits. You have about 12 minutes in total: decide quickly, run the full suite once.

For patch k = 1 write into {out}/:
  - patch{{k}}.diff : output of `git diff` in the worktree (only files under src/aiortc), applicable with `git apply` to the pristine HEAD
  - demo{{k}}.py : a small standalone demonstration program (plain Python, no pytest needed; may use asyncio and anything importable from /venv) that exercises the library through its real classes/functions and exits with status 0 when the property holds and status 1 (printing what went wrong) when it is violated. It must FAIL (exit 1) with the patch applied and PASS (exit 0) on the pristine worktree. Run as: PYTHONPATH={wt}/src /venv/bin/python {out}/demo{{k}}.py . Keep it deterministic (no dependence on wall-clock races; fixed seeds) and fast (< 60 s).
  - meta{{k}}.json : {{"property": "{pid}", "summary": "<one line: what was changed>", "mechanism": "<why this breaks the property>", "needs": "<what specific input/schedule/sequence is needed for it to manifest>", "files": [..], "full_suite_result": "<e.g. 495 passed>", "demo_with_patch": "exit 1", "demo_without_patch": "exit 0"}}

Procedure: read the anchored code, design change 1, apply it in the worktree, run the relevant test files then the full suite, write the demo, verify the demo fails; save `git diff > {out}/patch1.diff`; then `git checkout -- .` to return to pristine, verify demo1 passes on pristine. Leave the worktree pristine (git checkout -- .) at the end. If a candidate change is caught by the existing tests, discard it and find another. Do not modify tests. Do not commit anything.

Your final message should briefly state for each patch: what it changes, what is needed for it to manifest, and the verification results (full suite result, demo exit codes with and without the patch)."""
open(f"/tmp/seed4/{pid}/prompt.txt","w").write(prompt)
print(prompt[:200])
