#!/venv/bin/python
"""Regenerates MANIFEST.json from the table below.  A property is claimed iff
its check module exists under checks/ and it is listed in CLAIMED."""

import json
import sys
from pathlib import Path

ROOT = Path(__file__).resolve().parent.parent

# id -> (category, technique, level text, level note, design ref)
TABLE = {
    "C01": ("exploration", "Hypothesis-generated sessions (channels x sends x per-datagram fate lists) on a virtual-time loop; transcript reference model checked at every message event",
            "Generated-input search: thousands of simulated SCTP sessions per run under generated drop/dup/delay schedules, compared with an exactly-once/in-order transcript model after every delivery. Exploration is the right level: the space is schedules x traffic and is sampled, not enumerated.",
            "Trusted: the in-memory link (one family each for a send that suspends, as over a TURN relay, and for a sender that bundles chunks); aiortc's DTLS layer is replaced by a pass-through fake; asyncio itself.", "2/C01"),
    "C02": ("exploration", "Hypothesis-generated fault prefixes followed by a fault-free suffix on a virtual clock; bounded-liveness oracle (quiescence or provable stall)",
            "Liveness decided as bounded liveness under a harness-owned clock: after the finite fate lists are used up the simulation must reach idle with every queue empty and everything delivered; deadlock (idle with work outstanding) and livelock (repeated T3 without progress) are deterministic verdicts.",
            "Trusted: virtual-time loop, fake DTLS link; a stall that needs more than the step budget of continuous progress is reported inconclusive, not a pass.", "2/C02"),
    "C03": ("exploration", "Hypothesis-generated configuration pairs driven through real RTCPeerConnection objects (real aioice over loopback, real DTLS) on a virtual-time loop; SDP-consistency and connectivity oracle",
            "Generated configurations x follow-up negotiations; each is negotiated for real and must connect. Sampled product space.",
            "Trusted: aioice, OpenSSL, libsrtp, loopback UDP of the sandbox kernel.", "2/C03"),
    "C04": ("exploration", "Hypothesis-generated fingerprint lists, SRTP profile lists, roles and traffic over two real RTCDtlsTransport objects on a dummy ICE pair; reference fingerprint policy + delivery oracle",
            "Configuration matrix x inputs, sampled; reference policy written from the statement.",
            "Trusted: OpenSSL handshake and pylibsrtp; handshake flights are never dropped (OpenSSL's retransmission timer is not owned by the harness).", "2/C04"),
    "C05": ("exploration", "Coverage-guided fuzzing (atheris) of every wire parser plus Hypothesis structure-aware mutants, stateful injection into live SCTP associations / RTP receivers and arbitrary datagrams at the real DTLS transport receive entry in every state; oracle: only ValueError, bounded work, transport still carries valid traffic",
            "Byte-level and structure-aware search with exception, work-bound and liveness oracles.",
            "Trusted: the work bound is a deterministic count of executed Python lines (sys.monitoring), not wall time; atheris campaigns are only approximately seed-reproducible - the saved input is the reproducible unit.", "2/C05"),
    "C06": ("exploration", "Hypothesis-generated sessions mixing reliable and partially reliable channels under loss bursts, plus a family concentrated on lost / late FORWARD-TSN and SACK; transcript model (exact copy, no duplicates, order) plus post-recovery probes on every channel",
            "Sampled schedules x channel mixes; non-trivial only when a FORWARD-TSN was actually put on the wire.",
            "Trusted: as C01.", "2/C06"),
    "C07": ("exploration", "Hypothesis round-trip and reference-model checks over RTP/RTCP packets, header extension maps, NACK sets, loss clamp, REMB mantissa/exponent, RTX wrap/unwrap",
            "Pure functions over wire-range inputs with boundary pools; exact oracles.",
            "Trusted: nothing beyond the Python interpreter.", "2/C07"),
    "C08": ("exploration", "Hypothesis round-trip of every SCTP chunk/parameter class plus enumerated burst corruption (all start bits of sample packets) against the CRC32c check",
            "Pure functions over wire-range inputs; burst positions of sample packets are enumerated completely, the rest is sampled.",
            "Trusted: google_crc32c implements CRC32c.", "2/C08"),
    "C09": ("exploration", "Hypothesis-built SessionDescription objects, pc-generated offers/answers and line-mutated SDP texts; fixed-point / idempotence / field-recovery oracles; candidate line round trip",
            "Sampled inputs x configurations; idempotence and field recovery are exact string/field comparisons.",
            "Trusted: nothing beyond the interpreter (pc-generated family additionally trusts aioice gathering).", "2/C09"),
    "C10": ("exploration", "Hypothesis-generated arrival histories (arbitrary / bounded lateness / complete-displaced, interactive draws) against a token-based frame-integrity oracle and capacity/PLI invariants; a real RTCRtpReceiver compared with what the buffer returned",
            "Histories are sampled; oracle is independent of the implementation (tokens identify each arrival).",
            "Trusted: none beyond the interpreter; PLI clause reads the anchored _packets ring.", "2/C10"),
    "C11": ("exploration", "Hypothesis-generated loss/dup/reorder schedules over a real RTCRtpSender/RTCRtpReceiver pair on real DTLS transports (virtual time); decoder tap compared with the sender's packetised frames; NACK/RTX recovery model",
            "Closed-loop simulation, sampled schedules.",
            "Trusted: OpenSSL/libsrtp, the decoder thread is replaced by a tap as the property's hook note says.", "2/C11"),
    "C12": ("exploration", "Hypothesis stateful histories of register/unregister/route against an independent routing-table model, on the router and through a real RTCDtlsTransport",
            "Operation histories sampled; invariant checked after every step.",
            "Trusted: none beyond the interpreter.", "2/C12"),
    "C13": ("exploration", "Hypothesis-generated create/send/close/stop programs with Unicode labels under fate lists; event-history oracle for readyState, datachannel events, ids and bufferedAmount",
            "Programs x schedules sampled.",
            "Trusted: as C01.", "2/C13"),
    "C14": ("exploration", "Hypothesis-generated call programs over a pair of real peer connections compared step by step with a JSEP reference table; side-effect-freedom of failed calls",
            "Programs sampled up to a length bound.",
            "Trusted: aioice gathering on loopback.", "2/C14"),
    "C15": ("exploration", "Hypothesis-generated arrival histories against inequality oracles for RemoteBitrateEstimator and a list-model differential for RateCounter",
            "Histories sampled; bounds are those of the statement.",
            "Trusted: none beyond the interpreter.", "2/C15"),
    "C16": ("exploration", "Hypothesis-generated NAL unit lists / VP8 buffers with boundary-length pools, round-tripped through packetiser and depayloader; exhaustive picture-id sweep",
            "Pure functions; boundary windows enumerated, the rest sampled.",
            "Trusted: none beyond the interpreter.", "2/C16"),
    "C17": ("exploration", "Exhaustive/boundary serial-arithmetic comparison with the mathematical definition plus metamorphic origin-shift runs of the SCTP, jitter-buffer, NACK and statistics checks",
            "Serial arithmetic: all 2^32 16-bit pairs (thorough). Metamorphic pairs sampled.",
            "Trusted: as C01/C10/C18.", "2/C17"),
    "C18": ("exploration", "Hypothesis-generated per-SSRC arrival histories in unwrapped coordinates against a reference implementation of RFC 3550 A.1/A.3/A.8; RR packets captured from a real RTCRtpReceiver",
            "Histories sampled; exact integer oracle.",
            "Trusted: none beyond the interpreter.", "2/C18"),
    "C19": ("fault_enumeration", "close() injected at enumerated loop-handle boundaries of generated scenarios on the virtual-time loop; post-close state/task/thread/event oracle",
            "Interruption points of each scenario are enumerated (all of them in the thorough tier for the listed configurations) on top of sampled configurations.",
            "Trusted: aioice/OpenSSL; the OS scheduling of the decoder thread is not owned by the harness.", "2/C19"),
}

NOT_YET = "check not built yet in this round (work in progress; see DESIGN.md section 2 for the planned check)"


def main() -> None:
    claimed = []
    not_app = []
    props = [json.loads(l)["id"] for l in (ROOT / "properties.jsonl").read_text().splitlines() if l.strip()]
    sys.path.insert(0, str(ROOT))
    from vlib.runner import MODULES

    overrides_path = ROOT / "tools" / "not_applicable.json"
    overrides = json.loads(overrides_path.read_text()) if overrides_path.exists() else {}
    for pid in props:
        mod = ROOT / (MODULES[pid].replace(".", "/") + ".py")
        if pid in overrides:
            not_app.append({"property_id": pid, "reason": overrides[pid]})
            continue
        if not mod.exists():
            not_app.append({"property_id": pid, "reason": NOT_YET})
            continue
        cat, tech, text, note, ref = TABLE[pid]
        claimed.append({
            "property_id": pid,
            "quick_cmd": f"./check {pid} --tier quick",
            "thorough_cmd": f"./check {pid} --tier thorough",
            "evidence_file": f"evidence/{pid}.json",
            "replay_cmd_template": f"./check {pid} --replay {{path}}",
            "engine": "hypothesis+vlib",
            "level_claimed": {"category": cat, "text": text, "design_ref": f"DESIGN.md section {ref}"},
            "level_note": note,
            "technique": "property-based testing / fuzzing: " + tech,
        })
    manifest = {
        "version": 1,
        "setup_cmd": "sh ./setup.sh",
        "hooks": {
            "guard": "AIORTC_VERIF",
            "enable": "no source hooks exist: checks import /repo/src directly (editable install) and redirect clocks/RNG by replacing module attributes from the harness side; AIORTC_VERIF=1 is exported by ./check but nothing in /repo reads it",
            "baseline_off_cmd": "cd /repo && /venv/bin/python -m pytest -ra -q -p no:cacheprovider --timeout=900 --continue-on-collection-errors",
            "source_commits": [],
            "add_only": True,
        },
        "engines": [
            {"name": "hypothesis+vlib", "path": "vlib/runner.py",
             "serves_properties": [c["property_id"] for c in claimed],
             "kind_free_text": "Hypothesis 6.168 strategies (plain, interactive and stateful) sharded over 16 processes; virtual-time asyncio loop and in-memory datagram links for simulations; bounded delta-debugger for minimisation; atheris for byte-level fuzzing (C05)"},
        ],
        "checks": claimed,
        "not_applicable": not_app,
        "notes": "Exit protocol: 0 held / 1 with VIOLATION line / 2 harness error. KNOWN_FINDINGS.txt lists recorded findings and fixed: entries. VERIF_SEED selects the generation seed.",
    }
    (ROOT / "MANIFEST.json").write_text(json.dumps(manifest, indent=1) + "\n")
    print(f"claimed {len(claimed)}: {[c['property_id'] for c in claimed]}")
    print(f"not applicable {len(not_app)}")


if __name__ == "__main__":
    main()
